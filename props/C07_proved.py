"""PROVED-class obligations of C07 (structural postconditions of the normal-form transformations).

Every obligation is generated from the current source of genlm/grammar/cfg.py by executing the function body
on a *generic* rule of a symbolic grammar (vlib.pyvc.gharness) and checking the postcondition at every
recorded `add` site.  Shape facts (each a for-all-rules predicate of the result grammar with start symbol S):

  T   terminals occur only in bodies of length one            A2  len(body) <= 2
  SR  S occurs in no body                                      NN  len(body) = 0  =>  head = S
  NU  no rule  X -> Y  with Y a nonterminal

Obligations:  <function>/establishes-<F>, <function>/preserves-<F>, the contract of CFG.add, `_trim` (subset +
symbols), `_find_invalid_cnf_rule` (means CNF), and the compositions `nullaryremove` and `cnf`, whose real bodies are
executed over grammar tokens carrying the facts that the callee obligations proved in this run.
"""
import ast

import z3

from vlib.pyvc import interp as I, smt, source, symstruct as S, gharness as G

CFG = "genlm/grammar/cfg.py"
COMP = "{y for r in self for y in r.body}"
FACTS = ["T", "A2", "SR", "NN", "NU"]


# ------------------------------------------------------------------ facts as formulas
def elem_apps(formulas, fdecl):
    out = {}
    seen = set()

    def rec(e):
        if e.get_id() in seen:
            return
        seen.add(e.get_id())
        if z3.is_app(e):
            if e.decl().eq(fdecl):
                out[e.get_id()] = e
            for c in e.children():
                rec(c)

    for f in formulas:
        rec(f)
    return list(out.values())


def hyp_instances(gs, hyps, Sin, formulas):
    """Ground instances, on the occurring body-element terms of the generic input rules, of
    (i) membership of body symbols in the rhs-symbol set, (ii) the assumed input facts, (iii) subset q-facts."""
    out = []
    for r in gs.generic:
        b = r.body
        if isinstance(b, S.BaseSeq):
            idx = [e.arg(0) for e in elem_apps(formulas, b.elem)]
            L = b.L
            el = b.elem
        else:
            idx = [z3.IntVal(k) for k in range(b.length())]
            L = z3.IntVal(b.length())
            el = lambda j, b=b: I.zexpr(b.items[j.as_long()])  # noqa: E731
        for j in idx:
            inr = z3.And(j >= 0, j < L)
            out.append(z3.Implies(inr, gs.onrhs.mem(el(j))))
            if "T" in hyps:
                out.append(z3.Implies(z3.And(inr, gs.V.mem(el(j))), L == 1))
            if "SR" in hyps:
                out.append(z3.Implies(inr, el(j) != Sin))
        if "A2" in hyps:
            out.append(L <= 2)
        if "NN" in hyps:
            out.append(z3.Implies(L == 0, r.head.e == Sin))
        if "NU" in hyps:
            out.append(z3.Not(z3.And(L == 1, z3.Not(gs.V.mem(el(z3.IntVal(0)))))))
    for kind, bvar, seq, other in gs.path.qfacts:
        if kind == "subset" and isinstance(seq, S.BaseSeq):
            for e in elem_apps(formulas, seq.elem):
                j = e.arg(0)
                out.append(z3.Implies(z3.And(bvar, j >= 0, j < seq.L), other.mem(e)))
    return out


def fact_goals(it, gs, fact, Sres, head, body, V):
    """Goal formulas (evaluated inside the harness: element access may fork) for one rule (head, body)."""
    n = body.length()
    ne = n if not isinstance(n, int) else z3.IntVal(n)
    if fact == "A2":
        return [ne <= 2]
    if fact == "NN":
        return [z3.Implies(ne == 0, I.zexpr(head) == I.zexpr(Sres))]
    if fact == "NU":
        if isinstance(n, int) and n != 1:
            return []
        if not it.path.decide(ne == 1):
            return []
        return [V.mem(I.zexpr(body.at(it, 0)))]
    i = S.fresh("i")
    if not it.path.decide(z3.And(i >= 0, i < ne)):
        return []
    v = I.zexpr(body.at(it, I.Z(i)))
    if fact == "T":
        return [z3.Implies(V.mem(v), ne == 1)]
    if fact == "SR":
        return [v != I.zexpr(Sres)]
    raise KeyError(fact)


# ------------------------------------------------------------------ generic function harness
class Harness:
    """Symbolically executes cfg.CFG.<qual> on a symbolic grammar; `setup` customises globals/args/hooks."""

    def __init__(self, qual, hyps=(), lengths=None, nofork=False, together=False, carried_ok=()):
        self.nofork = nofork
        self.together = together      # all the generic rules of `lengths` in ONE execution (cross-iteration interference is visible)
        self.carried_ok = set(carried_ok)
        self.qual = qual
        self.fn = source.find(CFG, qual)
        self.hyps = set(hyps)
        self.lengths = lengths   # None: symbolic body length; else list of concrete arities (one generic rule each)

    def globals(self, it, gs, log):
        g = {"_gen_nt": G.gen_nt_native(gs, log), "Rule": G.rule_native()}
        nn = z3.Function("NotNull", S.SYM, S.SYM)

        def notnull(it2, a, k):
            s = nn(I.zexpr(a[0]))
            # FRESH-NAMES precondition (DESIGN 3): NotNull(x) is not a symbol of the input grammar
            it2.path.assume(z3.Not(gs.V.mem(s)))
            it2.path.assume(s != gs.S.e)
            return I.Z(s)

        g["NotNull"] = I.Native("NotNull", notnull)
        import itertools
        g["product"] = I.Native("product", lambda it2, a, k: list(itertools.product(*a, **k)))
        g["defaultdict"] = I.Unknown("defaultdict")
        return g

    def run(self, make_args, post, hooks=None):
        """post(it, gs, ret) -> list of (label, [goal formulas]); returns list of (path, result)."""
        fn = self.fn
        if not self.together:
            # generic-rule proof rule: sound only if an iteration of a rule loop does not depend on earlier iterations
            from vlib.pyvc import loopdep
            bad = [(ln, nm, how) for ln, src, ws in loopdep.carried(fn, lambda src: src in ("self", "self.rules")) for nm, how in ws
                   if not how.startswith("build") and nm not in self.carried_ok]
            if bad:
                raise I.OutOfSubset(f"rule loop at line {bad[0][0]} carries state across iterations ({bad[0][1]}: {bad[0][2]}); "
                                    "the one-generic-rule abstraction does not apply")
        if self.lengths is not None and len(self.lengths) > 1 and not self.together:
            # one generic rule of each arity, each in its own execution (keeps the path count additive)
            out = []
            for k in self.lengths:
                h = Harness(self.qual, self.hyps, [k], self.nofork)
                out += h.run(make_args, post, hooks)
            return out
        lengths = self.lengths
        nofork = self.nofork

        def harness(path):
            it = I.Interp(path, uf=G.UF)
            gs = G.GramSelf(path)
            if nofork:
                gs.rec_class = G.GramRecNoFork
            if lengths is not None:
                def concrete_iter(interp, gs=gs):
                    rs = []
                    for k in lengths:
                        gs.counter += 1
                        nm = f"r{gs.counter}_G"
                        body = S.TupleSeq([S.sym(f"b{j}_{nm}") for j in range(k)])
                        head = S.sym(f"head_{nm}")
                        path.assume(gs.N.mem(head.e))
                        path.assume(z3.Not(gs.V.mem(head.e)))
                        w = I.Z(z3.Const(f"w_{nm}", G.W))
                        path.assume(w.e != G.w0)
                        r = S.RuleVal(w, head, body)
                        gs.generic.append(r)
                        rs.append(r)
                    return rs
                gs.__class__ = type("GramSelfK", (G.GramSelf,), {"__pyvc_iter__": lambda s, interp: concrete_iter(interp),
                                                                 "rec_class": gs.rec_class})
            log = []
            genv = I.Env(None, self.globals(it, gs, log))
            for n in ast.walk(fn):
                if isinstance(n, ast.SetComp) and ast.unparse(n) == COMP:
                    it.expr_hooks[id(n)] = lambda i2, node, env, gs=gs: gs.onrhs
            if hooks:
                hooks(it, gs, fn, genv)
            fobj = I.FuncObj(fn, genv, self.qual)
            args, kwargs = make_args(it, gs)
            try:
                ret = it.call_func(fobj, [gs] + args, kwargs)
            except I.PyRaise as e:
                return dict(raised=f"{e.kind}: {e.msg}", gs=gs)
            return dict(goals=post(it, gs, ret), gs=gs, ret=ret)

        return I.explore(harness, max_paths=3000)


def result_rules(it, gs, ret):
    """(Sres, [(head, body)]) of the returned grammar: recorded adds, or a generic rule when `self` is returned."""
    if isinstance(ret, G.GramRec):
        return ret.f["S"], [(a["head"], a["body"], a) for a in ret.adds], ret
    if ret is gs:
        r = gs.new_rule("ret")
        return gs.S, [(r.head, r.body, None)], None
    raise I.OutOfSubset(f"function returned {type(ret).__name__}, not a grammar")


def check_fact(run, name, qual, fact, hyps=(), lengths=None, make_args=None, hooks=None, allow_assert=False, role="property",
               nofork=False, carried_ok=()):
    h = Harness(qual, hyps=hyps, lengths=lengths, nofork=nofork, carried_ok=carried_ok)
    run.function_under_contract("genlm.grammar.cfg." + qual, source.sha(h.fn))

    def post(it, gs, ret):
        Sres, rules, rec = result_rules(it, gs, ret)
        goals = []
        k = 0
        while k < len(rules):      # lazily evaluated bodies may record further adds while being inspected
            head, body, rec_ = rules[k]
            gl = fact_goals(it, gs, fact, Sres, head, body, gs.V)
            if rec_ is not None and rec_.get("guard") is not None:
                gl = [z3.Implies(rec_["guard"], g) for g in gl]
            goals += gl
            k += 1
            if rec is not None and len(rec.adds) > len(rules):
                for a in rec.adds[len(rules):]:
                    rules.append((a["head"], a["body"], a))
        return goals, Sres

    try:
        results = h.run(make_args or (lambda it, gs: ([], {})), post, hooks)
    except (I.OutOfSubset, I.PyRaise) as e:
        run.obligation(name, "out-of-subset", role=role, detail=str(e))
        return False
    ms = 0.0
    nsites = 0
    for path, r in results:
        gs = r["gs"]
        if "raised" in r:
            if allow_assert and r["raised"].startswith("AssertionError"):
                continue   # the function's own precondition assert (stated in the contract)
            run.obligation(name, "refuted", role=role, detail=f"raises {r['raised']} on a generic rule",
                           replay=dict(replayed=False, raised=r["raised"]), signature=f"{qual}:{fact}:raises")
            return False
        goals, Sres = r["goals"]
        for g in goals:
            nsites += 1
            fs = list(path.pc) + [g]
            inst = hyp_instances(gs, set(hyps), gs.S.e, fs)
            verdict, t, model, ge = G.prove_all(path, [g], extra=inst)
            ms += t
            if verdict != "proved":
                run.obligation(name, verdict if verdict != "refuted" else "refuted", role=role, ms=ms,
                               detail=f"{fact} not guaranteed at an add site of {qual} (hypotheses {sorted(hyps)})",
                               model=str(model)[:600] if model is not None else None,
                               replay=dict(replayed=False, goal=str(ge)[:400], model=str(model)[:800] if model is not None else None),
                               signature=f"{qual}:{fact}")
                return False
    if nsites == 0 and fact not in ("NU",):
        # vacuity guard: a postcondition that is never evaluated proves nothing
        run.obligation(name, "out-of-subset", role=role, detail="no add site reached (vacuous)")
        return False
    run.obligation(name, "proved", role=role, ms=ms, detail=f"{len(results)} paths, {nsites} site checks, hypotheses {sorted(hyps)}")
    return True


# ------------------------------------------------------------------ per-function hooks
def hooks_binarize(it, gs, fn, genv):
    loops = source.loops(fn, (ast.While,))

    class GenericStack:
        def __pyvc_getattr__(self, interp, nm, node):
            if nm == "pop":
                return I.Native("pop", lambda i2, a, k: gs.new_rule("p"))
            if nm == "extend":
                return I.Native("extend", lambda i2, a, k: None)
            raise I.OutOfSubset("stack." + nm)

    it.assign_hooks["stack"] = lambda i2, v: GenericStack()

    def once(i2, st, env):
        # loop cut with the trivial invariant "the stack holds arbitrary rules": one generic iteration
        try:
            i2.exec_block(st.body, env)
        except (I._Continue, I._Break):
            pass

    for lp in loops:
        it.loop_hooks[id(lp)] = once
    fold = source.find(CFG, "CFG._fold")
    gs.methods["_fold"] = I.BoundMethod(I.FuncObj(fold, genv, "CFG._fold"), gs)


def hooks_separate_terminals(it, gs, fn, genv):
    class InvDict:
        """_preterminal: every stored value is a rule  fresh_nt -> x  previously added to `new` (loop invariant)."""

        def __pyvc_getattr__(self, interp, nm, node):
            if nm == "get":
                def get(i2, a, k):
                    b = S.fresh("cached", z3.BoolSort())
                    if i2.path.decide(b):
                        h = S.fresh("gen_nt_old")
                        i2.path.assume(z3.Not(gs.V.mem(h)))
                        return S.RuleVal(gs.R.f["one"], I.Z(h), S.TupleSeq([a[0]]))
                    return None
                return I.Native("get", get)
            raise I.OutOfSubset("_preterminal." + nm)

        def __pyvc_setitem__(self, interp, k, v):
            pass

    it.assign_hooks["_preterminal"] = lambda i2, v: InvDict()


def hooks_unaryremove(it, gs, fn, genv):
    Wc = S.SymMap("Wclosure", G.W, keys=2)
    gs.closure = Wc
    gs.methods["_unary_graph"] = I.Native("_unary_graph", lambda i2, a, k: G.Bag(
        closure_scc_based=I.Native("closure_scc_based", lambda i3, a3, k3: Wc),
        closure_reference=I.Native("closure_reference", lambda i3, a3, k3: Wc)))


def args_push_null(it, gs):
    return [S.SymMap("null_weight", G.W)], {}


def args_trim(it, gs):
    gs.symbols = S.SymSet("symbols")
    return [gs.symbols], {}


# ------------------------------------------------------------------ individual obligations
def ob_add(run):
    name = "C07/cfg.CFG.add/stores-iff-nonzero"
    fn = source.find(CFG, "CFG.add")
    run.function_under_contract("genlm.grammar.cfg.CFG.add", source.sha(fn))

    def harness(path):
        it = I.Interp(path, uf=G.UF)
        rules, N = [], set()
        selfobj = G.Bag(R=G.Bag(zero=I.Z(G.w0), one=I.Z(G.w1)), N=N, rules=rules)
        w = I.Z(z3.Const("w", G.W))
        head, b0, b1 = S.sym("head"), S.sym("b0"), S.sym("b1")
        fobj = I.FuncObj(fn, I.Env(None, {"Rule": G.rule_native()}), "CFG.add")
        ret = it.call_func(fobj, [selfobj, w, head, b0, b1], {})
        return dict(ret=ret, rules=rules, N=N, w=w, head=head, body=(b0, b1))

    try:
        results = I.explore(harness)
    except (I.OutOfSubset, I.PyRaise) as e:
        run.obligation(name, "out-of-subset", detail=str(e))
        return
    ok = True
    why = ""
    for path, r in results:
        zero = smt.prove(list(path.pc), r["w"].e == G.w0)["verdict"] == "proved"
        nonzero = smt.prove(list(path.pc), r["w"].e != G.w0)["verdict"] == "proved"
        if zero:
            good = r["ret"] is None and not r["rules"]
        elif nonzero:
            rr = r["rules"]
            good = (len(rr) == 1 and rr[0] is r["ret"] and rr[0].w is r["w"] and rr[0].head is r["head"]
                    and isinstance(rr[0].body, S.TupleSeq) and all(x is y for x, y in zip(rr[0].body.items, r["body"]))
                    and any(x is r["head"] for x in r["N"]))
        else:
            good = False
        if not good:
            ok = False
            why = f"path {path.taken}: rules={len(r['rules'])} ret={r['ret']!r}"
    if ok and len(results) == 2:
        run.obligation(name, "proved", backend="pyvc+z3", detail="w == zero: nothing stored, returns None; else exactly Rule(w, head, body) appended, head added to N")
    else:
        run.obligation(name, "refuted", detail="CFG.add does not store exactly the non-zero rules: " + why,
                       replay=dict(replayed=False, why=why), signature="CFG.add")


def ob_trim(run):
    name = "C07/cfg.CFG._trim/subset-and-symbols"
    h = Harness("CFG._trim")
    run.function_under_contract("genlm.grammar.cfg.CFG._trim", source.sha(h.fn))

    def post(it, gs, ret):
        goals = []
        if not isinstance(ret, G.GramRec):
            raise I.OutOfSubset("_trim does not return a spawned grammar")
        for a in ret.adds:
            # the stored rule is an input rule, unchanged
            src = [r for r in gs.generic if r.body is a["body"] and r.head is a["head"] and r.w is a["w"]]
            goals.append(z3.BoolVal(bool(src)))
            goals.append(gs.symbols.mem(I.zexpr(a["head"])))
            i = S.fresh("i")
            n = a["body"].length()
            ne = n if not isinstance(n, int) else z3.IntVal(n)
            if it.path.decide(z3.And(i >= 0, i < ne)):
                goals.append(gs.symbols.mem(I.zexpr(a["body"].at(it, I.Z(i)))))
        same_S = ret.f["S"] is gs.S
        goals.append(z3.BoolVal(same_S))
        return goals, None

    try:
        results = h.run(args_trim, post)
    except (I.OutOfSubset, I.PyRaise) as e:
        run.obligation(name, "out-of-subset", detail=str(e))
        return
    ms = 0.0
    sites = 0
    for path, r in results:
        if "raised" in r:
            run.obligation(name, "refuted", detail="raises " + r["raised"], replay=dict(replayed=False), signature="_trim:raises")
            return
        goals, _ = r["goals"]
        for g in goals:
            sites += 1
            inst = hyp_instances(r["gs"], set(), None, list(path.pc) + [g])
            v, t, m, ge = G.prove_all(path, [g], extra=inst)
            ms += t
            if v != "proved":
                run.obligation(name, v, ms=ms, detail="_trim keeps a rule whose head/body leaves `symbols`, or alters a rule",
                               replay=dict(replayed=False, goal=str(ge)[:300]), signature="_trim")
                return
    if sites < 3:
        run.obligation(name, "out-of-subset", detail="vacuous: no add site")
        return
    run.obligation(name, "proved", ms=ms, detail=f"{len(results)} paths; kept rules are input rules with head and all body symbols in `symbols`; same start symbol")


def ob_find_invalid(run):
    name = "C07/cfg.CFG._find_invalid_cnf_rule/means-cnf"
    h = Harness("CFG._find_invalid_cnf_rule")
    run.function_under_contract("genlm.grammar.cfg.CFG._find_invalid_cnf_rule", source.sha(h.fn))

    def post(it, gs, ret):
        return (ret, list(gs.generic)), None

    try:
        results = h.run(lambda it, gs: ([], {}), post)
    except (I.OutOfSubset, I.PyRaise) as e:
        run.obligation(name, "out-of-subset", detail=str(e))
        return
    ms = 0.0
    for path, r in results:
        if "raised" in r:
            run.obligation(name, "refuted", detail="raises " + r["raised"], replay=dict(replayed=False), signature="find_invalid:raises")
            return
        (gen, rules), _ = r["goals"]
        gs = r["gs"]
        if len(rules) != 1:
            run.obligation(name, "out-of-subset", detail="expected one generic rule")
            return
        rr = rules[0]
        L, el, V, Ssym = rr.body.L, rr.body.elem, gs.V, gs.S.e
        cnf = z3.Or(z3.And(L == 0, rr.head.e == Ssym),
                    z3.And(L == 1, V.mem(el(0))),
                    z3.And(L == 2, z3.Not(V.mem(el(0))), el(0) != Ssym, z3.Not(V.mem(el(1))), el(1) != Ssym))
        yielded = len(gen.items) > 0
        q = smt.prove(list(path.pc), z3.Not(cnf) if yielded else cnf)
        ms += q["ms"]
        if q["verdict"] != "proved":
            run.obligation(name, q["verdict"], ms=ms, detail="_find_invalid_cnf_rule disagrees with the CNF shape of the property",
                           replay=dict(replayed=False, path=str(path.taken)), signature="find_invalid")
            return
    run.obligation(name, "proved", ms=ms, detail=f"{len(results)} paths: a rule is yielded iff it is none of S->eps, A->a, A->B C (B,C nonterminals != S)")


# ------------------------------------------------------------------ compositions over grammar tokens
class NullWeights:
    """The chart returned by null_weight(): which grammar it belongs to, and an unknown number of entries (agenda() records no
    update at or below its tolerance, so the chart may be EMPTY although the grammar has empty rules)."""

    def __init__(self, of):
        self.of = of
        self.n = S.fresh("null_weight_entries", z3.IntSort())

    def __pyvc_len__(self, interp):
        interp.path.assume(self.n >= 0)
        return I.Z(self.n)

    def __pyvc_truth__(self, interp):
        interp.path.assume(self.n >= 0)
        return interp.path.decide(self.n > 0)


class GTok:
    """Grammar token for contract-level composition: the set of shape facts known to hold."""

    provenance = False      # C06 turns this on: shapes (C07) hold whatever chart is pushed, language preservation does not

    def __init__(self, facts, table, trace):
        self.facts = frozenset(facts)
        self.table = table
        self.trace = trace

    def __pyvc_getattr__(self, interp, name, node):
        if name in self.table:
            def call(it, args, kw, name=name):
                est, pres, needs = self.table[name](args, kw)
                if name == "_push_null_weights" and self.provenance:
                    nw = args[0] if args else kw.get("null_weight")
                    if not (isinstance(nw, NullWeights) and nw.of is self):
                        raise I.PyRaise("PreconditionError", "_push_null_weights requires the null weights of the grammar it is applied to "
                                        f"(got {'those of an earlier stage' if isinstance(nw, NullWeights) else type(nw).__name__})", node)
                missing = [n for n in needs if n not in self.facts]
                if missing:
                    raise I.PyRaise("PreconditionError", f"{name} requires {missing}", node)
                out = set(est) | {f for f in self.facts if f in pres}
                self.trace.append((name, sorted(self.facts), sorted(out)))
                t = GTok(out, self.table, self.trace)
                t.provenance = self.provenance
                return t
            return I.Native(name, call)
        if name == "in_cnf":
            return I.Native("in_cnf", lambda it, a, k: True)   # assert new.in_cnf(): run-time guard, proved redundant below
        if name == "_find_invalid_cnf_rule":
            return I.Native("_find", lambda it, a, k: [])
        if name == "null_weight":
            # the chart of null weights is a function of THIS grammar (its rule set): _push_null_weights requires the chart of the
            # grammar it is applied to - a chart computed before binarisation knows nothing about the fold nonterminals
            return I.Native("null_weight", lambda it, a, k: NullWeights(self))
        raise I.OutOfSubset(f"no contract for CFG.{name} in composition")


def proved(run):
    run.trust("pyvc symbolic interpreter over the real AST (generic-rule loop cut, lazy symbolic sequences)", f"z3 {z3.get_version_string()}")
    run.assume("A: _gen_nt() returns a symbol that is not a symbol of the grammar and was never returned before (freshness is not enforced by the code)",
               "FRESH-NAMES precondition: NotNull(x) is not a terminal nor the start symbol of the input (API-closed inputs; bounded chains in C06)",
               "SEMIRING: zero != one; zero annihilates (C16)",
               "CLOSURE-support for the unary closure W: W[Y,h] != 0 and Y != h  =>  h is the body of some unary rule [bounded in C15]",
               "CFG.wf of inputs: heads are nonterminals (not in V), stored weights are non-zero")
    P = {}   # (function, kind, fact) -> proved?

    ob_add(run)
    ob_trim(run)
    ob_find_invalid(run)
    try:
        ob_unarycycleremove(run)
    except (I.OutOfSubset, KeyError) as e:
        run.obligation("C07/cfg.CFG.unarycycleremove/no-unary-cycle", "out-of-subset", detail=str(e))
    try:
        ob_trim_useful(run)
    except (I.OutOfSubset, KeyError) as e:
        run.obligation("C07/cfg.CFG.trim/only-useful-rules", "out-of-subset", detail=str(e))

    def est(fn, fact, **kw):
        nm = f"C07/cfg.{fn}/establishes-{fact}"
        P[(fn, "est", fact)] = check_fact(run, nm, fn, fact, **kw)

    def pres(fn, fact, extra_hyps=(), **kw):
        nm = f"C07/cfg.{fn}/preserves-{fact}"
        P[(fn, "pres", fact)] = check_fact(run, nm, fn, fact, hyps=(fact,) + tuple(extra_hyps), role="property", **kw)

    est("CFG.binarize", "A2", hooks=hooks_binarize)
    pres("CFG.binarize", "T", hooks=hooks_binarize)
    pres("CFG.binarize", "SR", hooks=hooks_binarize)      # lets the composition accept separate_start before binarize as well
    est("CFG.separate_start", "SR")
    pres("CFG.separate_start", "A2")
    pres("CFG.separate_start", "T")
    est("CFG.separate_terminals", "T", hooks=hooks_separate_terminals, carried_ok=("_preterminal",))   # modelled by the InvDict invariant
    est("CFG._push_null_weights", "NN", lengths=[0, 1, 2, 3], make_args=args_push_null, allow_assert=True, nofork=True)
    pres("CFG._push_null_weights", "A2", lengths=[0, 1, 2], make_args=args_push_null, allow_assert=True, nofork=True)
    pres("CFG._push_null_weights", "T", lengths=[0, 1, 2], make_args=args_push_null, allow_assert=True, nofork=True)
    pres("CFG._push_null_weights", "SR", lengths=[0, 1, 2], make_args=args_push_null, allow_assert=True, nofork=True)
    est("CFG.unaryremove", "NU", hooks=hooks_unaryremove)
    for f in ("A2", "T", "SR"):
        pres("CFG.unaryremove", f, hooks=hooks_unaryremove)
    # NN through unaryremove needs the closure-support contract and SR
    P[("CFG.unaryremove", "pres", "NN")] = ob_unaryremove_nn(run)

    # ---- compositions: execute the real bodies of nullaryremove and cnf over tokens
    def ok(fn, kind, fact):
        return bool(P.get((fn, kind, fact)))

    trim_ok = any(o["name"] == "C07/cfg.CFG._trim/subset-and-symbols" and o["verdict"] == "proved" for o in run.obligations)
    table = {
        "separate_terminals": lambda a, k: ([f for f in ["T"] if ok("CFG.separate_terminals", "est", f)], [], []),
        "binarize": lambda a, k: ([f for f in ["A2"] if ok("CFG.binarize", "est", f)], [f for f in ["T", "SR"] if ok("CFG.binarize", "pres", f)], []),
        "separate_start": lambda a, k: ([f for f in ["SR"] if ok("CFG.separate_start", "est", f)],
                                        [f for f in ["A2", "T"] if ok("CFG.separate_start", "pres", f)], []),
        "_push_null_weights": lambda a, k: ([f for f in ["NN"] if ok("CFG._push_null_weights", "est", f)],
                                            [f for f in ["A2", "T", "SR"] if ok("CFG._push_null_weights", "pres", f)], ["SR"]),
        # trim/_trim: result rules are input rules, same start symbol => every for-all-rules fact is preserved
        "trim": lambda a, k: ([], FACTS if trim_ok else [], []),
        "unaryremove": lambda a, k: ([f for f in ["NU"] if ok("CFG.unaryremove", "est", f)],
                                     [f for f in ["A2", "T", "SR", "NN"] if ok("CFG.unaryremove", "pres", f)], []),
    }
    for bz in (True, False):
        for tr in (True, False):
            compose(run, "CFG.nullaryremove", f"C07/cfg.CFG.nullaryremove/nullary-only-at-start[binarize={bz},trim={tr}]", table,
                    start=set(), kwargs=dict(binarize=bz, trim=tr), want={"NN"})
    # nullaryremove as a callee of cnf: contract = what its own composition established when entered with T
    nr = compose(run, "CFG.nullaryremove", None, table, start={"T"}, kwargs=dict(binarize=True), want=set(), silent=True)
    table2 = dict(table)
    table2["nullaryremove"] = lambda a, k: (sorted(nr or []), [], [])
    cnf_facts = compose(run, "CFG.cnf", "C07/cfg.CFG.cnf/stage-facts", table2, start=set(), kwargs={}, want=set(FACTS))
    # final implication: T, A2, SR, NN, NU  =>  CNF shape, for a generic rule
    name = "C07/cfg.CFG.cnf/shape"
    L = z3.Int("L")
    b = z3.Function("b", z3.IntSort(), S.SYM)
    V = z3.Function("inV", S.SYM, z3.BoolSort())
    head, Ssym = z3.Ints("head S")
    hyps = [L >= 0]
    for j in (0, 1):
        hyps.append(z3.Implies(z3.And(j < L, V(b(j))), L == 1))     # T
        hyps.append(z3.Implies(j < L, b(j) != Ssym))                # SR
    hyps += [L <= 2, z3.Implies(L == 0, head == Ssym), z3.Not(z3.And(L == 1, z3.Not(V(b(0)))))]
    cnf = z3.Or(z3.And(L == 0, head == Ssym), z3.And(L == 1, V(b(0))),
                z3.And(L == 2, z3.Not(V(b(0))), b(0) != Ssym, z3.Not(V(b(1))), b(1) != Ssym))
    if cnf_facts is not None and set(FACTS) <= set(cnf_facts):
        q = smt.prove(hyps, cnf)
        run.obligation(name, q["verdict"], ms=q["ms"], detail="T, A2, SR, NN, NU (all established by the stage obligations of this run) imply: "
                       "every rule is S->eps, A->a or A->B C with B, C nonterminals != S",
                       replay=dict(replayed=False), signature="cnf:shape")
    else:
        run.obligation(name, "refuted" if cnf_facts is not None else "out-of-subset",
                       detail=f"the stage contracts establish only {sorted(cnf_facts or [])}; CNF needs {FACTS}",
                       replay=dict(replayed=False, facts=sorted(cnf_facts or [])), signature="cnf:stage-facts")


def ob_unaryremove_nn(run):
    name = "C07/cfg.CFG.unaryremove/preserves-NN"
    h = Harness("CFG.unaryremove", hyps=("NN", "SR"))

    def post(it, gs, ret):
        goals = []
        for a in ret.adds:
            n = a["body"].length()
            ne = n if not isinstance(n, int) else z3.IntVal(n)
            goals.append((z3.Implies(ne == 0, I.zexpr(a["head"]) == gs.S.e), a))
        return goals, None

    try:
        results = h.run(lambda it, gs: ([], {}), post, hooks_unaryremove)
    except (I.OutOfSubset, I.PyRaise) as e:
        run.obligation(name, "out-of-subset", detail=str(e))
        return False
    ms = 0.0
    n = 0
    for path, r in results:
        if "raised" in r:
            run.obligation(name, "refuted", detail="raises " + r["raised"], replay=dict(replayed=False), signature="unaryremove:NN:raises")
            return False
        gs = r["gs"]
        goals, _ = r["goals"]
        for g, a in goals:
            n += 1
            fs = list(path.pc) + [g]
            inst = hyp_instances(gs, {"NN", "SR"}, gs.S.e, fs)
            # CLOSURE-support (assumed contract of closure_scc_based, bounded in C15), instantiated on the closure entries read:
            Wc = gs.closure.f
            for e in elem_apps(fs + [I.zexpr(a["w"])], Wc):
                Y, hh = e.arg(0), e.arg(1)
                inst.append(z3.Implies(z3.And(e != G.w0, Y != hh), gs.onrhs.mem(hh)))
            # the rule was stored, so its weight is non-zero (contract of add)
            inst.append(I.zexpr(a["w"]) != G.w0)
            # SR of the input: the start symbol is on no right-hand side
            inst.append(z3.Not(gs.onrhs.mem(gs.S.e)))
            v, t, m, ge = G.prove_all(path, [g], extra=inst + G.semiring_axioms([I.zexpr(a["w"])]))
            ms += t
            if v != "proved":
                run.obligation(name, v, ms=ms, detail="an empty rule can appear below the start symbol after unary removal",
                               replay=dict(replayed=False, goal=str(ge)[:300]), signature="unaryremove:NN")
                return False
    run.obligation(name, "proved", ms=ms, detail=f"{n} add sites; uses CLOSURE-support, SR and annihilation")
    return True


def compose(run, qual, name, table, start, kwargs, want, silent=False, provenance=False, role="property"):
    fn = source.find(CFG, qual)
    if not silent:
        run.function_under_contract("genlm.grammar.cfg." + qual, source.sha(fn))
    trace = []

    def harness(path):
        it = I.Interp(path)
        tok = GTok(start, table, trace)
        tok.provenance = provenance
        f2 = fn
        fobj = I.FuncObj(f2, I.Env(None, {}), qual, kind="func")
        return it.call_func(fobj, [tok], dict(kwargs))

    try:
        results = I.explore(harness, prune=False)
    except I.PyRaise as e:
        if name and not silent:
            run.obligation(name, "refuted", role=role, detail=f"stage precondition not established: {e}", replay=dict(replayed=False, trace=trace),
                           signature=qual + ":composition")
        return None
    except I.OutOfSubset as e:
        if name and not silent:
            run.obligation(name, "out-of-subset", detail=str(e))
        return None
    facts = None
    for path, ret in results:
        if not isinstance(ret, GTok):
            if name and not silent:
                run.obligation(name, "out-of-subset", detail="does not return a grammar token")
            return None
        facts = set(ret.facts) if facts is None else facts & set(ret.facts)
    if name and not silent:
        if want <= (facts or set()):
            run.obligation(name, "proved", role=role, backend="pyvc", detail=f"stages {[t[0] for t in trace]} establish {sorted(facts)}")
        else:
            run.obligation(name, "refuted", detail=f"stages {[t[0] for t in trace]} establish only {sorted(facts or [])}, need {sorted(want)}",
                           replay=dict(replayed=False, trace=[list(t) for t in trace]), signature=qual + ":composition")
    return facts


# ------------------------------------------------------------------ unarycycleremove: no unary cycle (rank argument)
def ob_unarycycleremove(run):
    """rank(original X) = 2*bucket[X], rank(copy of X) = 2*bucket[X] + 1: every unary rule of the result strictly increases the rank."""
    name = "C07/cfg.CFG.unarycycleremove/no-unary-cycle"
    fn = source.find(CFG, "CFG.unarycycleremove")
    run.function_under_contract("genlm.grammar.cfg.CFG.unarycycleremove", source.sha(fn))
    bucket = z3.Function("bucket", S.SYM, z3.IntSort())
    is_copy = z3.Function("is_copy", S.SYM, z3.BoolSort())
    orig = z3.Function("orig_of", S.SYM, S.SYM)

    def rank(x):
        return z3.If(is_copy(x), 2 * bucket(orig(x)) + 1, 2 * bucket(x))

    def harness(path):
        it = I.Interp(path, uf=G.UF)
        gs = G.GramSelf(path)
        gs.rec_class = G.GramRecNoFork
        X, Y1, Y2 = S.sym("Xs"), S.sym("Y1"), S.sym("Y2")
        for v in (X, Y1, Y2):
            path.assume(z3.Not(is_copy(v.e)))
            path.assume(gs.N.mem(v.e))
        path.assume(bucket(Y1.e) == bucket(Y2.e))      # B5: nodes of one block share the bucket
        path.assume(bucket(X.e) != bucket(Y1.e))
        Wself = z3.Const("G_XX", G.W)

        class Graph:
            def __pyvc_getitem__(self, interp, k, node):
                if k[0] is X and k[1] is X:
                    return I.Z(Wself)
                return I.Z(S.fresh("g", G.W))

            def __pyvc_getattr__(self, interp, nm, node):
                if nm == "buckets":
                    return BucketMap()
                if nm == "Blocks":
                    class W2:
                        # closure of a 2-node block: iterating yields one *generic* pair of its nodes
                        def __pyvc_iter__(self, interp):
                            x1, x2 = S.fresh("x1"), S.fresh("x2")
                            for v in (x1, x2):
                                interp.path.assume(z3.Or(v == Y1.e, v == Y2.e))
                            return [(I.Z(x1), I.Z(x2))]

                        def __pyvc_getitem__(self, interp, k, node):
                            return I.Z(S.fresh("Wc", G.W))

                    w1 = {(X, X): I.Z(z3.Const("Wc_XX", G.W))}
                    return [([X], w1), ([Y1, Y2], W2())]
                raise I.OutOfSubset("graph." + nm)

        class BucketMap:
            def __pyvc_getitem__(self, interp, k, node):
                return I.Z(bucket(I.zexpr(k)))

            def __pyvc_getattr__(self, interp, nm, node):
                if nm == "get":
                    def get(i2, a, kw):
                        x = I.zexpr(a[0])
                        # symbols that are not nodes of the unary graph (terminals, symbols without rules) have no bucket
                        if i2.path.decide(gs.N.mem(x)):
                            return I.Z(bucket(x))
                        return None
                    return I.Native("get", get)
                raise I.OutOfSubset("buckets." + nm)

        gs.methods["_unary_graph"] = I.Native("_unary_graph", lambda i2, a, k: Graph())
        log = []

        def gen(i2, a, k):
            c = S.fresh("copy")
            i2.path.assume(is_copy(c))
            log.append(c)
            return I.Z(c)

        genv = I.Env(None, {"_gen_nt": I.Native("_gen_nt", gen)})
        # the copy created for x is a copy *of x*: read off the call `bot(x)`: instrument by wrapping the closure after definition
        fobj = I.FuncObj(fn, genv, "CFG.unarycycleremove")
        # set(): `acyclic` must support add / membership on symbolic symbols
        class SymPySet:
            def __init__(self):
                self.items = []

            def __pyvc_getattr__(self, interp, nm, node):
                if nm == "add":
                    return I.Native("add", lambda i2, a, k: self.items.append(a[0]))
                raise I.OutOfSubset("set." + nm)

            def __pyvc_contains__(self, interp, x):
                cs = [I.zexpr(x) == I.zexpr(y) for y in self.items]
                return I.Z(z3.Or(*cs)) if cs else False

        it.assign_hooks["acyclic"] = lambda i2, v: SymPySet()
        it.assign_hooks["_bot"] = lambda i2, v: S.SymDict()
        orig_call = it.call

        def call(f, args, kwargs, node=None):
            r = orig_call(f, args, kwargs, node)
            if isinstance(f, I.FuncObj) and f.name == "bot" and isinstance(r, I.Z) and any(r.e.eq(c) for c in log):
                path.assume(orig(r.e) == I.zexpr(args[0]))
            return r

        it.call = call
        try:
            ret = it.call_func(fobj, [gs], {"trim": False})
        except I.PyRaise as e:
            return dict(raised=f"{e.kind}: {e.msg}", gs=gs)
        goals = []
        for a in ret.adds:
            n = a["body"].length()
            ne = n if not isinstance(n, int) else z3.IntVal(n)
            if isinstance(n, int) and n != 1:
                continue
            if not it.path.decide(ne == 1):
                continue
            b0 = I.zexpr(a["body"].at(it, 0))
            h = I.zexpr(a["head"])
            # unary rule head -> b0 with b0 a node of the unary graph: the rank must strictly increase
            goal = z3.Implies(z3.And(z3.Not(gs.V.mem(b0)), z3.Or(gs.N.mem(b0), is_copy(b0))), rank(h) < rank(b0))
            goals.append(z3.Implies(a["guard"], goal) if a.get("guard") is not None else goal)
        return dict(goals=(goals, len(ret.adds)), gs=gs)

    try:
        results = I.explore(harness, max_paths=2000)
    except (I.OutOfSubset, I.PyRaise) as e:
        run.obligation(name, "out-of-subset", detail=str(e))
        return False
    ms, sites = 0.0, 0
    for path, r in results:
        if "raised" in r:
            run.obligation(name, "refuted", detail="raises " + r["raised"], replay=dict(replayed=False), signature="unarycycleremove:raises")
            return False
        gs = r["gs"]
        goals, n = r["goals"]
        for g in goals:
            sites += 1
            fs = list(path.pc) + [g]
            inst = hyp_instances(gs, set(), None, fs)
            # SCC_ORDER(B4) on the unary graph: a unary rule head -> y between different blocks has bucket[head] < bucket[y]
            for rr in gs.generic:
                if isinstance(rr.body, S.BaseSeq):
                    y = rr.body.elem(0)
                    inst.append(z3.Implies(z3.And(rr.body.L == 1, gs.N.mem(y), z3.Not(gs.V.mem(y)), bucket(rr.head.e) != bucket(y)),
                                           bucket(rr.head.e) < bucket(y)))
                    inst.append(z3.Not(is_copy(rr.head.e)))
                    inst.append(z3.Implies(rr.body.L >= 1, z3.Not(is_copy(y))))
            v, t, m, ge = G.prove_all(path, [g], extra=inst)
            ms += t
            if v != "proved":
                run.obligation(name, v, ms=ms, detail="a unary rule of the result does not increase rank(original)=2*bucket / rank(copy)=2*bucket+1: a unary cycle is possible",
                               replay=dict(replayed=False, goal=str(ge)[:300]), signature="unarycycleremove:no-unary-cycle")
                return False
    if sites == 0:
        run.obligation(name, "out-of-subset", detail="vacuous: no unary rule emitted")
        return False
    run.obligation(name, "proved", ms=ms, detail=f"{len(results)} paths, {sites} unary add sites: every unary rule strictly increases the rank, hence no unary cycle (uses SCC_ORDER B4/B5)")
    return True


# ------------------------------------------------------------------ trim: only useful rules (soundness of both work-list passes)
def ob_trim_useful(run):
    """Every insertion into the generating set C is supported by a rule whose body is already in C; every insertion into the
    reachable set T comes from a rule with head in T and an all-generating body, and T starts as {S} only if S is generating.
    With `_trim` (proved above) the result keeps only rules whose symbols are all in T, T subset of C.  The induction over the
    insertion order (ghost ranks) is the meta-step; completeness of the fixed points is checked bounded (C06/C07 stand-ins)."""
    name = "C07/cfg.CFG.trim/only-useful-rules"
    fn = source.find(CFG, "CFG.trim")
    run.function_under_contract("genlm.grammar.cfg.CFG.trim", source.sha(fn))
    wl = source.loops(fn, (ast.While,))
    if len(wl) != 2:
        run.obligation(name, "out-of-subset", detail=f"expected two work-list loops, found {len(wl)}")
        return
    inits = [st for st in fn.body if isinstance(st, ast.Assign) and ast.unparse(st.targets[0]) == "T"]
    if len(inits) != 1:
        run.obligation(name, "out-of-subset", detail="cannot find the initialisation of T")
        return

    class GrowSet:
        """A set given by a membership predicate; records insertions."""

        def __init__(self, nm):
            self.mem = z3.Function("in_" + nm, S.SYM, z3.BoolSort())
            self.ins = []

        def __pyvc_contains__(self, interp, x):
            return I.Z(self.mem(I.zexpr(x)))

        def __pyvc_getattr__(self, interp, nm, node):
            if nm == "add":
                return I.Native("add", lambda i2, a, k: self.ins.append((a[0], list(i2.path.pc), list(i2.path.qfacts))))
            if nm in ("pop", "update"):
                return I.Native(nm, lambda i2, a, k: None)
            raise I.OutOfSubset("set." + nm)

    def run_body(which):
        loop = wl[which]

        def harness(path):
            it = I.Interp(path)
            Cset, Tset, agenda = GrowSet("C"), GrowSet("T"), GrowSet("agenda")
            x = S.sym("x")
            e = S.RuleVal(I.Z(z3.Real("w_e")), S.sym("head_e"), S.BaseSeq("body_e"))
            path.assume(e.body.L >= 0)

            class Index:
                def __pyvc_getitem__(self, interp, k, node):
                    return [e]

            if which == 1:
                path.assume(e.head.e == x.e)          # e in incoming[x]
                path.assume(Tset.mem(x.e))            # agenda is a subset of T (every agenda.add follows a T.add of the same symbol)
            env = I.Env(None, {"C": Cset, "T": Tset, "agenda": agenda, "outgoing": Index(), "incoming": Index(), "x": x})
            jj = S.fresh("j")
            for lp in source.loops(loop, (ast.For,)):
                if ast.unparse(lp.iter) == "e.body":
                    def generic_b(i2, st, env_, jj=jj):
                        i2.path.assume(z3.And(jj >= 0, jj < e.body.L))
                        i2.assign(st.target, I.Z(e.body.elem(jj)), env_)
                        try:
                            i2.exec_block(st.body, env_)
                        except (I._Continue, I._Break):
                            pass
                    it.loop_hooks[id(lp)] = generic_b
            body = [st for st in loop.body if not (isinstance(st, ast.Assign) and ast.unparse(st.value) == "agenda.pop()")]
            try:
                it.exec_block(body, env)
            except (I._Continue, I._Break):
                pass
            return dict(C=Cset, T=Tset, e=e, x=x, j=jj)

        return I.explore(harness)

    def all_instances(qfacts, interp_path, seq_elem, idx):
        out = []
        for kind, b, seq, _ in qfacts:
            if kind == "all":
                it2 = I.Interp(interp_path)
                v = seq.at(it2, I.Z(idx))
                out.append(z3.Implies(b, v.e if isinstance(v, I.Z) else z3.BoolVal(bool(v))))
        return out

    try:
        r1 = run_body(0)
        r2 = run_body(1)
    except (I.OutOfSubset, I.PyRaise) as e:
        run.obligation(name, "out-of-subset", detail=str(e))
        return
    ok, why, sites = True, "", 0
    for path, r in r1:
        e = r["e"]
        for (sym_, pc, qf) in r["C"].ins:
            sites += 1
            i = S.fresh("i")
            inst = all_instances(qf, path, e.body, i)
            goal = z3.And(I.zexpr(sym_) == e.head.e, z3.Implies(z3.And(i >= 0, i < e.body.L), r["C"].mem(e.body.elem(i))))
            if smt.prove(pc + inst, goal)["verdict"] != "proved":
                ok, why = False, "a symbol enters the generating set C without a rule whose whole body is already in C"
        if r["T"].ins:
            ok, why = False, "the bottom-up pass writes to T"
    for path, r in r2:
        e = r["e"]
        for (sym_, pc, qf) in r["T"].ins:
            sites += 1
            i = S.fresh("i")
            inst = all_instances(qf, path, e.body, i)
            goal = z3.And(r["T"].mem(e.head.e),                                                        # the rule's head is reachable
                          z3.Implies(z3.And(i >= 0, i < e.body.L), r["C"].mem(e.body.elem(i))),          # the rule is all-generating
                          I.zexpr(sym_) == e.body.elem(r["j"]))                                          # and the new symbol is one of its body symbols
            if smt.prove(pc + inst, goal)["verdict"] != "proved":
                ok, why = False, "a symbol enters the reachable set T through a rule that is dropped afterwards (some body symbol is not generating) or whose head is not in T"
    # initialisation of T
    try:
        path = I.Path([])
        it = I.Interp(path)
        Cs = GrowSet("C")
        Ssym = S.sym("S")
        env = I.Env(None, {"C": Cs, "self": G.Bag(S=Ssym)})

        def h(p):
            it2 = I.Interp(p)
            it2.exec_stmt(inits[0], env)
            return env.get("T")

        for p, T0 in I.explore(h):
            elems = list(T0) if isinstance(T0, (set, frozenset, list)) else None
            if elems is None:
                ok, why = False, "T is not initialised with a set literal"
            for y in elems or []:
                sites += 1
                if smt.prove(list(p.pc), z3.And(I.zexpr(y) == Ssym.e, Cs.mem(Ssym.e)))["verdict"] != "proved":
                    ok, why = False, "T is seeded with a symbol that is not the (generating) start symbol"
    except (I.OutOfSubset, I.PyRaise) as e:
        run.obligation(name, "out-of-subset", detail=str(e))
        return
    final_trim = [n for n in ast.walk(fn) if isinstance(n, ast.Call) and ast.unparse(n.func) == "self._trim"]
    args_ok = sorted(ast.unparse(c.args[0]) for c in final_trim) == ["C", "T"]
    if ok and sites >= 3 and args_ok:
        run.obligation(name, "proved", detail=f"{sites} insertion sites: C is supported, T is reachable through all-generating rules with head in T, T is seeded by S only if S is generating; "
                       "result = _trim(T) (resp. _trim(C) for bottomup_only)")
    else:
        run.obligation(name, "refuted" if sites else "out-of-subset", detail=why or f"result is not _trim(T)/_trim(C) (args_ok={args_ok})",
                       replay=dict(replayed=False, why=why, hint="S -> A B, A -> a with B unproductive"), signature="trim:only-useful-rules")

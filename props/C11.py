"""C11 - the weight an automaton assigns to a string is the sum over accepting paths; epsilon removal;
total weight.

PROVED layer  : props/C11_proved.py (result sorts, epsremove structure, E/G conformance) - see run().
BOUNDED layer : the contracts
                    m(x) == [[m]](x)            (value of the semiring, equal to the independent path sum)
                    m.epsremove has no epsilon arc and m.epsremove(x) == [[m]](x)   (point-wise; for the exact
                                                 semiring also for ALL strings at once by Tzeng equivalence)
                    m.total_weight() == sum over all accepting paths; forward/backward vectors likewise
                evaluated on the real functions over the automaton domain of DESIGN 2.5.
"""
import random
from fractions import Fraction

from props import common
from props.common import num_close, sig
from vlib import bridge, dom_wfsa, engine
from vlib.dom_wfsa import gcall, fail_kind
from vlib.spec import algebra, fsaspec, ratspec

ID = "C11"
LEVEL = "other"

SEMIRINGS_QUICK = ["Q", "Float", "Real", "Boolean", "MaxTimes", "Log"]
SEMIRINGS_THOROUGH = ["Q", "Float", "FloatFrac", "Real", "RealFrac", "Boolean", "MaxTimes", "MaxPlus", "Log"]

P = "C11/wfsa.base.WFSA."
OB_CALL = P + "__call__/equals-path-sum"
OB_CALL_T = P + "__call__/result-in-semiring"
OB_EPS = P + "epsremove/equals-path-sum"
OB_EPS_NOEPS = P + "epsremove/no-epsilon-arcs"
OB_EPS_ALL = P + "epsremove/equivalent-on-all-strings"
OB_TOT = P + "total_weight/equals-path-sum"
OB_TOT_T = P + "total_weight/result-in-semiring"
OB_FWD = P + "forward/equals-path-sum"
OB_BWD = P + "backward/equals-path-sum"

CALL_TIMEOUT = 10


def make_cases(tier, seed, n_random=None, maxlen=None):
    quick = tier == "quick"
    n_random = n_random if n_random is not None else (160 if quick else 2500)
    maxlen = maxlen if maxlen is not None else (4 if quick else 5)
    q, sigma, m = (3, 2, 5) if quick else (4, 2, 8)
    doms = dom_wfsa.automaton_domain(seed, n_random, q, sigma, m)
    srs = SEMIRINGS_QUICK if quick else SEMIRINGS_THOROUGH
    cases = []
    for i, (name, a) in enumerate(doms):
        for k, sr in enumerate(srs):
            ren = ["id", "str", "tuple"][(i + k) % 3]
            cases.append(dict(name=name, a=a, sr=sr, cls="base", ren=ren, maxlen=maxlen))
            if sr == "Float":
                # the exported default class (genlm.grammar.wfsa.WFSA) inherits the same methods
                cases.append(dict(name=name, a=a, sr=sr, cls="field", ren="id", maxlen=maxlen))
        if i % 3 == 0:
            # integer labels including 0: epsilon is the label '' and nothing else (strengthened after seeded change C11-6)
            cases.append(dict(name=name + "#ids", a=dom_wfsa.int_labels(a), sr=srs[i % len(srs)], cls="base", ren="id", maxlen=maxlen))
    return cases


def same(sr, got, want):
    if sr == "Q":
        return got == want
    return num_close(got, want)


def check_case(case):
    from genlm.grammar.wfsa import base, field_wfsa
    SR = dom_wfsa.semirings()
    sr = case["sr"]
    R, ops, conv, val = SR[sr]
    out = dict(n=0, keys=[], violations=[])
    a0 = case["a"]
    if not ratspec.eps_converges(a0):
        return out          # outside the domain: the epsilon-path sum diverges
    tag = dom_wfsa.features(a0)
    a = dom_wfsa.rename_states(a0, dom_wfsa.RENAMERS[case["ren"]])
    sa = dom_wfsa.spec_automaton(a, sr)
    cls = base.WFSA if case["cls"] == "base" else field_wfsa.WFSA
    desc = dict(automaton=bridge.fmt_automaton(a), semiring=sr, cls=case["cls"], instance=case["name"], features=tag)

    seen = set()

    def viol(ob, what, func, x, got, exp):
        if (ob, func, dom_wfsa.kind(what)) in seen:
            return          # one replay per (obligation, function, failure kind) and case
        seen.add((ob, func, dom_wfsa.kind(what)))
        out["violations"].append(dict(
            obligation=ob, what=what, signature=sig(func, dom_wfsa.kind(what), sr, case["cls"]),
            replay=dict(desc, function=func, string=list(x) if x is not None else None, observed=repr(got), expected=repr(exp),
                        case=common.enc(case))))

    st, m = gcall(CALL_TIMEOUT, dom_wfsa.build_wfsa, cls, R, conv, a)
    if st != "ok":
        viol(OB_CALL, fail_kind(st, m), "construct", None, m, "an automaton")
        return out
    V = dom_wfsa.alphabet(a) or ["a"]
    xs = ratspec.strings_upto(V, case["maxlen"]) + [("z",), (V[0], "z")]
    want = {x: fsaspec.wfsa_weight(ops, sa, x) for x in xs}
    nontrivial = any(not ops.is_zero(w) for w in want.values())

    # ---- m(x)
    for x in xs:
        st, v = gcall(CALL_TIMEOUT, m, x)
        out["n"] += 1
        if st != "ok":
            viol(OB_CALL, fail_kind(st, v), "__call__", x, v, want[x])
            continue
        if not dom_wfsa.in_sr(v, R):
            viol(OB_CALL_T, "result-not-in-semiring: " + type(v).__name__, "__call__", x, v, want[x])
            continue
        if not same(sr, val(v), want[x]):
            viol(OB_CALL, "wrong-value", "__call__", x, val(v), want[x])

    # ---- epsremove
    st, e = gcall(CALL_TIMEOUT, lambda: m.epsremove)
    out["n"] += 1
    if st != "ok":
        viol(OB_EPS, fail_kind(st, e), "epsremove", None, e, "an automaton")
    else:
        eps_arcs = [(i, l, j, w) for i, l, j, w in e.arcs() if l == fsaspec.EPS and not ops.is_zero(val(w))]
        if eps_arcs:
            viol(OB_EPS_NOEPS, "epsilon-arc-left", "epsremove", None, eps_arcs[:3], "no epsilon arc")
        for x in xs:
            st, v = gcall(CALL_TIMEOUT, e, x)
            out["n"] += 1
            if st != "ok":
                viol(OB_EPS, fail_kind(st, v), "epsremove.__call__", x, v, want[x])
            elif not dom_wfsa.in_sr(v, R):
                viol(OB_CALL_T, "result-not-in-semiring: " + type(v).__name__, "epsremove.__call__", x, v, want[x])
            elif not same(sr, val(v), want[x]):
                viol(OB_EPS, "wrong-value", "epsremove.__call__", x, val(v), want[x])
        if sr == "Q" and not eps_arcs:
            # all strings at once: exact Tzeng equivalence of the result's arc structure with the input
            snap = dom_wfsa.snapshot(e, val)
            out["n"] += 1
            eq, wit = fsaspec.equivalent(algebra.Q, sa, snap)
            if not eq:
                viol(OB_EPS_ALL, "not-equivalent", "epsremove", wit, bridge.fmt_automaton(snap), "same weight on every string")

    # ---- total weight, forward and backward weights
    if ratspec.total_converges(a0):
        idx = sorted(sa.states, key=repr)
        M = {i: {j: ops.zero for j in idx} for i in idx}
        for i, _, j, w in sa.arcs:
            M[i][j] = ops.add(M[i][j], w)
        K = ops.closure(idx, M)
        total = fsaspec.wfsa_total(ops, sa)
        st, v = gcall(CALL_TIMEOUT, m.total_weight)
        out["n"] += 1
        if st != "ok":
            kind = fail_kind(st, v)
            viol(OB_TOT_T if kind == "raised: TypeError" else OB_TOT, kind, "total_weight", None, v, total)
        elif not dom_wfsa.in_sr(v, R):
            viol(OB_TOT_T, "result-not-in-semiring: " + type(v).__name__, "total_weight", None, v, total)
        elif not same(sr, val(v), total):
            viol(OB_TOT, "wrong-value", "total_weight", None, val(v), total)
        fwd = {j: ops.sum(ops.mul(sa.start.get(i, ops.zero), K[i][j]) for i in idx) for j in idx}
        bwd = {i: ops.sum(ops.mul(K[i][j], sa.stop.get(j, ops.zero)) for j in idx) for i in idx}
        for ob, func, exp in ((OB_FWD, "forward", fwd), (OB_BWD, "backward", bwd)):
            st, vec = gcall(CALL_TIMEOUT, lambda f=func: getattr(m, f))
            if st != "ok":
                out["n"] += 1
                viol(ob, fail_kind(st, vec), func, None, vec, exp)
                continue
            for q in idx:
                out["n"] += 1
                got = vec[q]
                if not dom_wfsa.in_sr(got, R):
                    viol(ob, "result-not-in-semiring: " + type(got).__name__, func, None, (q, got), exp[q])
                elif not same(sr, val(got), exp[q]):
                    viol(ob, "wrong-value", func, None, (q, val(got)), exp[q])
    # ---- a machine derived from m AFTER m has answered queries (its epsilon-removed form, graphs and backward weights are memoised
    # on the object): the copy plus one more arc must be evaluated on its own arcs, not on m's memoised results
    # (this is how kleene_plus / + / * build their results; strengthened after seeded change C11-8)
    ini = sorted((q for q, w in sa.start.items() if not ops.is_zero(w)), key=repr)
    fin = sorted((q for q, w in sa.stop.items() if not ops.is_zero(w)), key=repr)
    if ini and fin:
        st, c = gcall(CALL_TIMEOUT, lambda: m.spawn(keep_init=True, keep_arcs=True, keep_stop=True))
        out["n"] += 1
        if st != "ok":
            viol(OB_CALL, fail_kind(st, c), "spawn(keep_init, keep_arcs, keep_stop)", None, c, "a copy")
        else:
            sym = V[0]
            extra = (fin[0], sym, ini[0], Fraction(1, 4))
            a2 = type(a)(a.states, dict(a.start), dict(a.stop), list(a.arcs) + [extra])
            if ratspec.eps_converges(a2):
                sa2 = dom_wfsa.spec_automaton(a2, sr)
                gcall(CALL_TIMEOUT, lambda: c.add_arc(extra[0], sym, extra[2], conv(extra[3])))
                for x in xs[:40]:
                    st, v = gcall(CALL_TIMEOUT, c, x)
                    out["n"] += 1
                    exp = fsaspec.wfsa_weight(ops, sa2, x)
                    if st != "ok":
                        viol(OB_CALL, fail_kind(st, v), "spawn(..).add_arc(..).__call__", x, v, exp)
                    elif dom_wfsa.in_sr(v, R) and not same(sr, val(v), exp):
                        viol(OB_CALL, "wrong-value: derived copy answers from the source's memoised results", "spawn(..).add_arc(..).__call__", x, val(v), exp)
    if nontrivial:
        out["keys"].append(sig(case["name"], sr, case["cls"], case["ren"]))
    if case["name"] in ("eps_cycle2", "nested_eps_cycles") and sr == "Q":
        out["sample"] = dict(automaton=bridge.fmt_automaton(a), semiring=sr, strings=len(xs),
                             example={"".join(x): str(w) for x, w in list(want.items())[:8]})
    return out


def bounded(run):
    tier = run.tier
    cases = make_cases(tier, run.seed)
    srs = SEMIRINGS_QUICK if tier == "quick" else SEMIRINGS_THOROUGH
    run.rule(f"automata: corpus of adversarial shapes (several initial/final states, parallel arcs, epsilon arcs, epsilon "
             f"self loops / cycles / nested cycles, unreachable and dead states, empty language, no states, string- and "
             f"tuple-named states) + seeded random A{(3, 2, 5) if tier == 'quick' else (4, 2, 8)} with generic rational weights "
             f"(epsilon sums converge; instances whose path sum diverges are skipped); semirings {srs} "
             f"(Q = exact user semiring with Fraction scores; Float also through the exported field_wfsa.WFSA class); "
             f"all strings up to length {4 if tier == 'quick' else 5} over the automaton's alphabet plus two strings with a foreign "
             f"symbol; for Q additionally equivalence of epsremove on ALL strings (Tzeng over the rationals); state "
             f"renamings id/str/tuple; PYTHONHASHSEED in the listed set.  NOT covered: Expectation and Entropy semirings; "
             f"total_weight/forward/backward only where the all-path sum converges.  "
             f"non-trivial = some string has non-zero weight; distinct = (automaton, semiring, class, renaming); "
             f"signature = (function, failure kind, semiring, class) - the failing instance is in the replay")
    seeds = (0, 1) if tier == "quick" else (0, 1, 2, 3)
    run.extra["hash_seeds"] = list(seeds)
    engine.run_cases(run, "props.C11", "check_case", cases, hash_seeds=seeds, per_case_timeout=120,
                     split=(tier == "quick"))


def run(run, only=None):
    run.assume("T-PATHSUM: [[m]](x) is well defined (weights scaled so that every epsilon-path sum converges)",
               "spec functions fsaspec.wfsa_weight / wfsa_total (exact epsilon closure (I-E)^-1 over Q, Kleene iteration over "
               "the idempotent semirings) and fsaspec.equivalent (Tzeng over Q) are the oracle",
               "CLOSURE (C15) is what epsremove relies on; it is checked here only through its effect on string weights")
    if only != "bounded":
        common.run_proved(run, "C11")
    if only != "proved":
        bounded(run)


def replay(doc):
    return common.generic_replay(doc, check_case)

"""C09 - grammar o transducer is relational composition.

PROVED layer  : props/C09_proved.py (construction conformance of CFG.__matmul__ / FST.T / truncate_length's automaton) - see run().
BOUNDED layer : the contracts
                    [[cfg @ T]](y)   == sum_x [[cfg]](x) * [[T]](x, y)          (and  T' @ cfg  with T' = transpose of T: same weights)
                    [[cfg @ M]](x)   == [[cfg]](x) * [[M]](x)                    (acceptor operand)
                    [[cfg @ s]](x)   == [[cfg]](s) if x == s else 0,  (cfg @ s).treesum() == [[cfg]](s)   (str / tuple operand)
                    [[cfg.truncate_length(n)]](x) == [[cfg]](x) if |x| <= n else 0
                evaluated on the REAL CFG.__matmul__ / FST.__matmul__ / truncate_length.
Left sides : the neutral snapshot (bridge.from_cfg) of the returned grammar, evaluated by the independent derivation-sum spec
             (cfgspec inside chart on the original rules) - this judges the *grammar* the property talks about - and, as the
             user's observation, the real call  (cfg @ T)(y) / .treesum()  with the tolerance of CFG.agenda (1e-12 absolute steps).
Right sides: vlib.spec.cfgfst_spec.compose_weight - T restricted to y, exact epsilon removal, Bar-Hillel system over the
             EPSILON-FREE automaton solved as a polynomial system; exact (rational) whenever all its blocks are linear, float
             iteration otherwise (tolerance mode, both sides then compared at rel 1e-7).  No enumeration of x, so input-consuming
             cycles without output are covered.
"""
import random
from fractions import Fraction

from props import common
from props.common import call, num_close, sig
from vlib import bridge, dom_fst, domains, engine
from vlib.spec import cfgspec, fsaspec, cfgfst_spec as cfs, fstcompose_spec as fcs
from vlib.spec.fsaspec import A, EPS

ID = "C09"
LEVEL = "other"

SEMIRINGS_QUICK = ["Q", "Float", "Boolean", "MaxTimes"]
SEMIRINGS_THOROUGH = ["Q", "Float", "Real", "Boolean", "MaxTimes"]
REALCALL = {"Float", "Real", "Boolean", "MaxTimes"}   # plus Q on linear grammars (see _linear)

OB_COMP = "C09/cfg.CFG.__matmul__/relational-composition"
OB_FLIP = "C09/fst.FST.__matmul__/cfg-operand-composes-with-transpose"
OB_ACC = "C09/cfg.CFG.__matmul__/acceptor-pointwise-product"
OB_STR = "C09/cfg.CFG.__matmul__/string-pointwise-product"
OB_TRUNC = "C09/cfg.CFG.truncate_length/keeps-exactly-bounded-strings"


# ------------------------------------------------------------------ cases
def make_cases(tier, seed, n_random=None):
    quick = tier == "quick"
    rng = random.Random(seed * 15485863 + 9)
    srs = SEMIRINGS_QUICK if quick else SEMIRINGS_THOROUGH
    n_random = (110 if quick else 1500) if n_random is None else n_random
    L = 3 if quick else 4
    doms = [(n, g) for n, g in domains.grammar_domain(tier, seed, n_random=n_random) if g.V]   # composition needs at least one symbol to read
    n_corpus = len(doms) - n_random
    tc = dom_fst.fst_corpus("ab", "xy")
    tnames = list(tc)
    same = dom_fst.fst_corpus("ab", "ab")
    accs = list(domains.wfsa_corpus().items())
    qmax = 3 if quick else 4
    cases = []
    for i, (name, g) in enumerate(doms):
        V = sorted(g.V)
        corpus = i < n_corpus
        rename = ["id", "id", "tuple"][i % 3]
        ts = []
        for k in range(3 if corpus else 1):
            tn = tnames[(3 * i + 7 * k) % len(tnames)]
            ts.append((tn, tc[tn], "xy"))
        if i % 5 == 0:
            tn = tnames[(i // 5) % len(tnames)]
            ts.append(("same:" + tn, same[tn], "ab"))
        for k in range((3 if corpus else 2) + (0 if quick else 1)):
            hot = (i + k) % 2 == 0      # many input-consuming arcs without output: the sum over x is infinite
            ins = (V[:2] if quick else V[:3]) if len(V) > 1 else V + ["b"]
            ts.append((f"rich{seed}_{i}_{k}", dom_fst.rich_fst(rng, rng.randint(1, qmax), ins, "xy",
                                                              p_out_eps=0.5 if hot else 0.2, n_in_eps=2, p_epseps=0.35), "xy"))
        for tn, t, B in ts:
            cases.append(dict(kind="fst", name=f"{name}*{tn}", g=g, t=t, B=B, L=L if len(t.states) <= 3 else L - 1, srs=srs, rename=rename))
        if corpus and i % 2 == 0 and ts:
            # token-id vocabularies on both tapes: 0 is a falsy symbol but NOT epsilon (strengthened after seeded change C03-2)
            tn, t, B = ts[0]
            gi, ti, Bi = _ids_case(g, t, B)
            cases.append(dict(kind="fst", name=f"{name}*{tn}#ids", g=gi, t=ti, B=Bi, L=L if len(t.states) <= 3 else L - 1, srs=srs, rename=rename))
        # acceptor operand
        ms = [(f"acc{seed}_{i}", dom_fst.rand_wfsa(rng, rng.randint(1, qmax), V, 6, p_eps=0.3))]
        if corpus:
            ms.append(accs[i % len(accs)])
        for mn, m in ms:
            cases.append(dict(kind="wfsa", name=f"{name}*{mn}", g=g, m=m, L=L, srs=srs, rename=rename))
        # string operands and truncation
        if corpus or i % 3 == 0:
            cases.append(dict(kind="string", name=name, g=g, L=2 if quick else 3, srs=srs, rename=rename))
            cases.append(dict(kind="trunc", name=name, g=g, ns=[0, 1, 2, 3], L=L, srs=srs, rename=rename))
        if corpus and i % 3 == 1:
            # structured tokens: (word, tag) pairs are symbols of the acceptor / string / length machine, not (input, output) labels
            # (strengthened after seeded change C09-10)
            tup = {a: ("w", k) for k, a in enumerate(sorted(g.V))}
            gt = type(g)(g.S, frozenset(tup.values()), [(w, h, tuple(tup.get(y, y) for y in b)) for w, h, b in g.rules])
            cases.append(dict(kind="string", name=name + "#tup", g=gt, L=2 if quick else 3, srs=srs, rename=rename))
            cases.append(dict(kind="trunc", name=name + "#tup", g=gt, ns=[0, 1, 2], L=L, srs=srs, rename=rename))
        if corpus and i % 3 == 2:
            # multi-character string tokens ('a', 'aa', 'aaa'): the length bound counts SYMBOLS, not characters
            cat = {a: "a" * (k + 1) for k, a in enumerate(sorted(g.V))}
            gc = type(g)(g.S, frozenset(cat.values()), [(w, h, tuple(cat.get(y, y) for y in b)) for w, h, b in g.rules])
            cases.append(dict(kind="string", name=name + "#cat", g=gc, L=2 if quick else 3, srs=srs, rename=rename))
            cases.append(dict(kind="trunc", name=name + "#cat", g=gc, ns=[0, 1, 2], L=L, srs=srs, rename=rename))
    return cases


def _ids_case(g, t, B):
    vin = {a: k for k, a in enumerate(sorted(set(g.V) | {ab[0] for _, ab, _, _ in t.arcs if ab[0] != ""}))}
    vout = {b: k for k, b in enumerate(sorted(set(B) | {ab[1] for _, ab, _, _ in t.arcs if ab[1] != ""}))}
    gi = type(g)(g.S, frozenset(vin[a] for a in g.V), [(w, h, tuple(vin.get(y, y) if y in g.V else y for y in b)) for w, h, b in g.rules])
    ti = type(t)(t.states, dict(t.start), dict(t.stop), [(i, (vin.get(a, a) if a != "" else "", vout.get(b, b) if b != "" else ""), j, w)
                                                         for i, (a, b), j, w in t.arcs])
    return gi, ti, [vout[b] for b in sorted(B)]


# ------------------------------------------------------------------ helpers
def tol_close(a, b):
    """Comparison for values the LIBRARY computed through CFG.agenda (absolute step tolerance 1e-12 per item)."""
    if isinstance(a, bool) or isinstance(b, bool):
        return bool(a) == bool(b)
    return num_close(a, b, rel=1e-6, abs_=1e-9)


class Rec:
    def __init__(self, case):
        self.case = case
        self.out = dict(n=0, keys=[], violations=[])
        self._seen = set()

    def viol(self, ob, func, what, sr, **fields):
        kind = what.split(":")[0]
        sgn = sig(func, what if kind in ("raised", "result-not-in-semiring") else kind, self.case["name"], sr)
        if (ob, sgn) in self._seen:
            return
        self._seen.add((ob, sgn))
        rp = dict(function=func, semiring=sr, grammar=bridge.fmt_grammar(self.case["g"]), rename=self.case.get("rename"))
        rp.update({k: (repr(v) if not isinstance(v, (str, int, list, type(None))) else v) for k, v in fields.items()})
        rp["case"] = common.enc(self.case)
        self.out["violations"].append(dict(obligation=ob, what=what, signature=sgn, replay=rp))

    def real(self, ob, func, sr, got, want, val, **fields):
        self.out["n"] += 1
        st, v = got
        if st != "ok":
            self.viol(ob, func, "raised: " + v.split(":")[0], sr, message=v, expected=want, **fields)
        elif not common.in_semiring(v, sr):
            self.viol(ob, func, "result-not-in-semiring: " + type(v).__name__, sr, observed=v, expected=want, **fields)
        elif not tol_close(val(v), want):
            self.viol(ob, func, "wrong-value", sr, observed=val(v), expected=want, **fields)

    def spec(self, ob, func, sr, got, want, **fields):
        self.out["n"] += 1
        if not num_close(got, want):
            self.viol(ob, func, "wrong-value", sr, observed=got, expected=want, via="derivation-sum spec on the snapshot of the returned grammar", **fields)


class OutsideDomain(Exception):
    pass


def _oracle(f):
    """Evaluate the ORACLE side; a divergent / critical system there puts the instance outside the property's domain."""
    try:
        return f()
    except ArithmeticError as e:
        raise OutsideDomain(str(e))


def _snapshot(comp, ops, val):
    return cfs.trimmed(ops, bridge.from_cfg(comp, val))


def _eval_snapshot(rec, ob, func, sr, comp, ops, val, strs, **fields):
    """({s: weight}, exact, snapshot) of the returned grammar under the spec, or None (violation recorded)."""
    snap = _snapshot(comp, ops, val)
    try:
        w, exact = cfs.substring_weights(ops, snap, strs)
    except ArithmeticError as e:
        rec.out["n"] += 1
        rec.viol(ob, func, "returned-grammar-diverges: " + str(e), sr, rules=len(snap.rules), **fields)
        return None
    return w, exact, snap


def _cfg(case, sr):
    return bridge.to_cfg(case["g"], sr, rename=common.renamer(case["rename"]))


def _linear(g):
    """Every strongly connected block of the grammar's own system is linear.  Then so is every block of a composed
    grammar (items (i, X, k) inherit the dependency structure of X), and CFG.agenda over exact Fractions adds a
    geometric series instead of squaring denominators every round - only then are the real calls made over Q."""
    from vlib.spec.algebra import Q
    try:
        return cfgspec.treesums(Q, g)[1]
    except ArithmeticError:
        return False


def _use_real(sr, linear):
    return sr in REALCALL or (sr == "Q" and linear)


def _s(x):
    return list(x)


# ------------------------------------------------------------------ grammar o transducer, both argument orders
def check_fst(case, rec):
    g, t = case["g"], case["t"]
    ys = dom_fst.strings(case["B"], case["L"])
    oracle = {}
    lin = _linear(g)
    for sr in case["srs"]:
        R, ops, conv, val = bridge.SEMIRINGS[sr]
        if ops.name not in oracle:
            gs, ts = bridge.spec_grammar(g, sr), bridge.spec_automaton(t, sr)
            oracle[ops.name] = _oracle(lambda: {y: cfs.compose_weight(ops, gs, ts, y) for y in ys})
        want = oracle[ops.name]
        rhs_exact = all(e for _, e in want.values())
        desc = dict(transducer=bridge.fmt_automaton(t))
        cfg = _cfg(case, sr)
        T = bridge.to_fst(t, sr)
        Tt = bridge.to_fst(fcs.transpose(t), sr)
        for ob, func, build in ((OB_COMP, "cfg @ fst", lambda: cfg @ T), (OB_FLIP, "fst @ cfg", lambda: Tt @ cfg)):
            st, comp = call(build)
            if st != "ok":
                rec.out["n"] += 1
                rec.viol(ob, func, "raised: " + comp.split(":")[0], sr, message=comp, **desc)
                continue
            if not isinstance(comp, bridge.CFG):
                rec.out["n"] += 1
                rec.viol(ob, func, "not-a-grammar: " + type(comp).__name__, sr, **desc)
                continue
            ev = _eval_snapshot(rec, ob, func, sr, comp, ops, val, ys, **desc)
            if ev is not None:
                lhs, _, snap = ev
                for y in ys:
                    rec.spec(ob, func, sr, lhs[y], want[y][0], y=_s(y), **desc)
            if _use_real(sr, lin):
                for y in ys:
                    rec.real(ob, f"({func})(y)", sr, call(comp, y), want[y][0], val, y=_s(y), **desc)
                if func == "cfg @ fst":
                    # the composed grammar is a grammar like any other: a SECOND operation on it (here: truncation, which builds its
                    # length automaton from the result's alphabet) must see a well-formed one (epsilon is not a symbol of it)
                    k = max(0, case["L"] - 1)
                    st2, tr = call(lambda: comp.truncate_length(k))
                    if st2 == "ok" and isinstance(tr, bridge.CFG):
                        for y in ys:
                            rec.real(OB_TRUNC, f"(cfg @ fst).truncate_length({k})(y)", sr, call(tr, y), want[y][0] if len(y) <= k else ops.zero, val, y=_s(y), **desc)
                    else:
                        rec.out["n"] += 1
                        rec.viol(OB_TRUNC, f"(cfg @ fst).truncate_length({k})", "raised: " + str(tr).split(":")[0], sr, message=str(tr), **desc)
        if any(not ops.is_zero(w) for w, _ in want.values()):
            rec.out["keys"].append(sig("fst", case["name"], sr, "exact" if rhs_exact else "tolerance"))
        if sr == "Q" and "sample" not in rec.out and any(w != 0 for w, _ in want.values()) and case["name"].startswith(("palindrome", "catalan")):
            rec.out["sample"] = dict(grammar=bridge.fmt_grammar(g), transducer=bridge.fmt_automaton(t), semiring=sr,
                                     exact=rhs_exact, example={"".join(y): str(w) for y, (w, _) in want.items() if w != 0})


# ------------------------------------------------------------------ acceptor operand: pointwise product
def check_wfsa(case, rec):
    g, m = case["g"], case["m"]
    syms = set(g.V) | {a for _, a, _, _ in m.arcs if a != EPS}
    xs = dom_fst.strings(sorted(syms)[:3], case["L"] if len(syms) <= 2 else case["L"] - 1)
    oracle = {}
    lin = _linear(g)
    for sr in case["srs"]:
        R, ops, conv, val = bridge.SEMIRINGS[sr]
        if ops.name not in oracle:
            gs, ms = bridge.spec_grammar(g, sr), bridge.spec_automaton(m, sr)
            gw, gex = _oracle(lambda: cfs.substring_weights(ops, gs, xs))
            oracle[ops.name] = (_oracle(lambda: {x: ops.mul(gw[x], fsaspec.wfsa_weight(ops, ms, x)) for x in xs}), gex)
        want, gex = oracle[ops.name]
        desc = dict(acceptor=bridge.fmt_automaton(m))
        cfg = _cfg(case, sr)
        M = bridge.to_wfsa(m, sr, cls=bridge.field_wfsa.WFSA)
        st, comp = call(lambda: cfg @ M)
        if st != "ok":
            rec.out["n"] += 1
            rec.viol(OB_ACC, "cfg @ wfsa", "raised: " + comp.split(":")[0], sr, message=comp, **desc)
            continue
        ev = _eval_snapshot(rec, OB_ACC, "cfg @ wfsa", sr, comp, ops, val, xs, **desc)
        if ev is not None:
            lhs, _, snap = ev
            for x in xs:
                rec.spec(OB_ACC, "cfg @ wfsa", sr, lhs[x], want[x], x=_s(x), **desc)
        if _use_real(sr, lin):
            for x in xs:
                rec.real(OB_ACC, "(cfg @ wfsa)(x)", sr, call(comp, x), want[x], val, x=_s(x), **desc)
        if any(not ops.is_zero(w) for w in want.values()):
            rec.out["keys"].append(sig("wfsa", case["name"], sr))


# ------------------------------------------------------------------ string operand
def check_string(case, rec):
    g = case["g"]
    V = sorted(g.V)
    base = dom_fst.strings(V, case["L"])
    around = dom_fst.strings(V, case["L"] + 1)
    operands = [("tuple", s) for s in base]
    if all(isinstance(a, str) and len(a) == 1 for a in V):
        operands += [("str", "".join(s)) for s in base]
    operands.append(("tuple", (V[0], "z")))          # a symbol the grammar does not have
    oracle = {}
    lin = _linear(g)
    for sr in case["srs"]:
        R, ops, conv, val = bridge.SEMIRINGS[sr]
        if ops.name not in oracle:
            oracle[ops.name] = _oracle(lambda: cfs.substring_weights(ops, bridge.spec_grammar(g, sr), around + [(V[0], "z")]))
        gw, gex = oracle[ops.name]
        cfg = _cfg(case, sr)
        nz = False
        for form, s in operands:
            key = tuple(s)
            desc = dict(operand=repr(s))
            st, comp = call(lambda: cfg @ s)
            if st != "ok":
                rec.out["n"] += 1
                rec.viol(OB_STR, f"cfg @ {form}", "raised: " + comp.split(":")[0], sr, message=comp, **desc)
                continue
            nz = nz or not ops.is_zero(gw[key])
            tests = [x for x in around if len(x) <= len(key) + 1 and set(x) <= set(key) | {V[0]}][:12]
            if key not in tests:
                tests.append(key)
            ev = _eval_snapshot(rec, OB_STR, f"cfg @ {form}", sr, comp, ops, val, tests, **desc)
            if ev is not None:
                lhs, _, snap = ev
                for x in tests:
                    rec.spec(OB_STR, f"cfg @ {form}", sr, lhs[x], gw[key] if x == key else ops.zero, x=_s(x), **desc)
                # total weight of the composed grammar (covers every string at once)
                try:
                    tot, _ = cfgspec.treesums(ops, snap)
                    rec.spec(OB_STR, f"treesum(cfg @ {form})", sr, tot[snap.S], gw[key], **desc)
                except ArithmeticError as e:
                    rec.out["n"] += 1
                    rec.viol(OB_STR, f"treesum(cfg @ {form})", "returned-grammar-diverges: " + str(e), sr, expected=gw[key], **desc)
            if _use_real(sr, lin):
                rec.real(OB_STR, f"(cfg @ {form}).treesum()", sr, call(lambda: comp.treesum()), gw[key], val, **desc)
        if nz:
            rec.out["keys"].append(sig("string", case["name"], sr))


# ------------------------------------------------------------------ truncate_length
def check_trunc(case, rec):
    g = case["g"]
    V = sorted(g.V)
    oracle = {}
    lin = _linear(g)
    for sr in case["srs"]:
        R, ops, conv, val = bridge.SEMIRINGS[sr]
        Lmax = case["L"] if len(V) <= 2 else case["L"] - 1
        xs = dom_fst.strings(V, Lmax)
        if ops.name not in oracle:
            oracle[ops.name] = _oracle(lambda: cfs.substring_weights(ops, bridge.spec_grammar(g, sr), xs))
        gw, gex = oracle[ops.name]
        cfg = _cfg(case, sr)
        nz = False
        for n in case["ns"]:
            desc = dict(max_length=n)
            st, comp = call(cfg.truncate_length, n)
            if st != "ok":
                rec.out["n"] += 1
                rec.viol(OB_TRUNC, "truncate_length", "raised: " + comp.split(":")[0], sr, message=comp, **desc)
                continue
            want = {x: (gw[x] if len(x) <= n else ops.zero) for x in xs}
            nz = nz or any(not ops.is_zero(w) for w in want.values())
            ev = _eval_snapshot(rec, OB_TRUNC, "truncate_length", sr, comp, ops, val, xs, **desc)
            if ev is not None:
                lhs, _, snap = ev
                for x in xs:
                    rec.spec(OB_TRUNC, "truncate_length", sr, lhs[x], want[x], x=_s(x), **desc)
                if n <= Lmax:
                    # nothing longer than n survives: the total weight is the sum over |x| <= n
                    try:
                        tot, _ = cfgspec.treesums(ops, snap)
                        rec.spec(OB_TRUNC, "treesum(truncate_length)", sr, tot[snap.S], ops.sum(want[x] for x in xs if len(x) <= n), **desc)
                    except ArithmeticError as e:
                        rec.out["n"] += 1
                        rec.viol(OB_TRUNC, "treesum(truncate_length)", "returned-grammar-diverges: " + str(e), sr, **desc)
            if _use_real(sr, lin):
                for x in xs:
                    rec.real(OB_TRUNC, "truncate_length(n)(x)", sr, call(comp, x), want[x], val, x=_s(x), **desc)
        if nz:
            rec.out["keys"].append(sig("trunc", case["name"], sr))


KINDS = dict(fst=check_fst, wfsa=check_wfsa, string=check_string, trunc=check_trunc)


def check_case(case):
    rec = Rec(case)
    try:
        KINDS[case["kind"]](case, rec)
    except OutsideDomain:
        # the ORACLE side could not be evaluated (divergent / critical instance): outside the property's domain
        return dict(n=0, keys=[], violations=[])
    return rec.out


def bounded(run):
    tier = run.tier
    cases = make_cases(tier, run.seed)
    srs = SEMIRINGS_QUICK if tier == "quick" else SEMIRINGS_THOROUGH
    kinds = {}
    for c in cases:
        kinds[c["kind"]] = kinds.get(c["kind"], 0) + 1
    run.extra["case_kinds"] = kinds
    L = 3 if tier == "quick" else 4
    run.rule(f"grammars: corpus of adversarial shapes (empty rules, nullable and unary cycles, useless symbols, empty language) + seeded "
             f"random G(3,2,5,3) [thorough: G(4,3,7,3)], generic rational weights scaled for convergence, nonterminals also renamed to "
             f"tuples; transducers ab->xy (and ab->ab): hand-made shapes (eps on either tape, eps:eps loops, input-consuming cycles "
             f"without output, output cycles without input, several initial/final states, dead and unreachable states, empty machine) "
             f"+ permissive random machines with <= {3 if tier == 'quick' else 4} states; both argument orders (cfg @ T and T^t @ cfg); "
             f"all output strings up to length {L} ({L - 1} for 4-state machines); acceptor operands (random with epsilon + corpus), "
             f"str and tuple operands (every string up to length {2 if tier == 'quick' else 3}, a foreign symbol), truncate_length(0..3) "
             f"on all strings up to length {L}; semirings {srs} (Q = exact user semiring); the returned grammar is judged by the "
             f"derivation-sum spec on its snapshot (rel 1e-7; exact rationals when every block is linear) and by the real call / "
             f".treesum() (tolerance 1e-9 abs + 1e-6 rel for CFG.agenda's stopping rule; over Q only for grammars whose blocks are all linear); "
             f"non-trivial = some compared weight is non-zero; distinct = (kind, grammar*machine, semiring, exact|tolerance). "
             f"Not covered: Log/Expectation/Entropy/MaxPlus, FST.PRUNING hooks, longer strings")
    seeds = (0, 1) if tier == "quick" else (0, 1, 2, 3)
    run.extra["hash_seeds"] = list(seeds)
    engine.run_cases(run, "props.C09", "check_case", cases, hash_seeds=seeds, per_case_timeout=90 if tier == "quick" else 240,
                     split=True)


def run(run, only=None):
    run.assume("T-DERIV / T-PATHSUM: [[G]](x) and [[T]](x, y) are well defined and sum_x [[G]](x) [[T]](x, y) converges "
               "(grammar weights scaled for convergence, every transducer state's outgoing mass < 1)",
               "spec functions: cfgspec inside chart (left sides, on the snapshot of the returned grammar) and "
               "cfgfst_spec.compose_weight (right sides: restriction to y, exact epsilon removal, Bar-Hillel system over the "
               "epsilon-free automaton); validated against the finite defining sum by cfgfst_spec.selfcheck",
               "A-BARHILLEL-EPS: the library's epsilon-input handling (special rules) is NOT assumed by the bounded layer")
    if only != "bounded":
        common.run_proved(run, "C09")
    if only != "proved":
        bounded(run)


def replay(doc):
    return common.generic_replay(doc, check_case)

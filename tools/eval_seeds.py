#!/usr/bin/env python3
"""tools/eval_seeds.py [--from /tmp/seed] [--only C10,C11/2] [--jobs 3] [--skip-tests]

For every independently produced change <src>/<Cnn>/out/<k>/{patch.diff,demo.py,notes.md}:
  1. copy /repo's package and tests to a scratch directory, apply the patch there (never to /repo);
  2. confirm it myself: demo.py exits != 0 with the change and 0 without; the repository's test suite still passes with it;
  3. run `./check Cnn --tier quick` (both layers) against the changed tree (VERIF_REPO) and record which obligations report it;
  4. keep confirmed changes under /verif/seeded/<Cnn>-<k>/ (patch.diff, demo.py, notes.md, meta.json).
Scratch directories are removed.  Prints one JSON line per change and a summary table.
"""
import argparse
import concurrent.futures as cf
import json
import os
import shutil
import subprocess
import sys
import tempfile

V = os.path.dirname(os.path.dirname(os.path.abspath(__file__)))
PY = "/venv/bin/python"


def sh(cmd, env=None, cwd=None, timeout=3600):
    r = subprocess.run(cmd, shell=True, capture_output=True, text=True, env=env, cwd=cwd, timeout=timeout)
    return r.returncode, r.stdout + r.stderr


def evaluate(src, pid, k, skip_tests, prop, offset=0):
    d = os.path.join(src, pid, "out", str(k))
    sid = f"{pid}-{int(k) + offset}"
    if not os.path.exists(os.path.join(d, "patch.diff")):
        return None
    tmp = tempfile.mkdtemp(prefix=f"seedeval_{pid}_{k}_")
    res = dict(id=sid, property=pid)
    try:
        clean, dirty = os.path.join(tmp, "clean"), os.path.join(tmp, "dirty")
        for t in (clean, dirty):
            os.makedirs(t)
            shutil.copytree("/repo/genlm", os.path.join(t, "genlm"))
            shutil.copytree("/repo/tests", os.path.join(t, "tests"))
        rc, out = sh(f"patch -p1 -s < {d}/patch.diff", cwd=dirty)
        if rc != 0:
            res.update(status="PATCH-FAILED", detail=out[-300:])
            return res
        env = lambda root: dict(os.environ, PYTHONPATH=root, PYTHONWARNINGS="ignore", OMP_NUM_THREADS="1")   # noqa: E731
        rc_d, out_d = sh(f"timeout 900 {PY} -W ignore {d}/demo.py", env=env(dirty), cwd=dirty)
        rc_c, out_c = sh(f"timeout 900 {PY} -W ignore {d}/demo.py", env=env(clean), cwd=clean)
        res.update(demo_with_change=rc_d, demo_without=rc_c)
        if not (rc_d != 0 and rc_c == 0):
            res.update(status="DEMO-NOT-CONFIRMED", detail=(out_d[-200:] + " | " + out_c[-200:]))
            return res
        if not skip_tests:
            rc_t, out_t = sh(f"timeout 3000 {PY} -m pytest -q -p no:cacheprovider --timeout=900 -x tests/", env=env(dirty), cwd=dirty, timeout=3200)
            tail = out_t.strip().splitlines()[-1] if out_t.strip() else ""
            res.update(tests=tail)
            if rc_t != 0 or "97 passed" not in tail:
                res.update(status="TESTS-FAIL", detail=tail)
                return res
        cenv = dict(os.environ, VERIF_REPO=dirty, VERIF_EVIDENCE_DIR=os.path.join(tmp, "ev"), VERIF_REPLAY_DIR=os.path.join(tmp, "rp"))
        rc, out = sh(f"{V}/check {prop or pid} --tier quick", env=cenv, cwd=V, timeout=7200)
        viol = [l for l in out.splitlines() if l.startswith("VIOLATION")]
        obl = sorted({l.split("obligation=")[1].split()[0] for l in viol if "obligation=" in l})
        res.update(check_exit=rc, caught_by=obl, status="CAUGHT" if rc == 1 and viol else f"MISSED(exit {rc})",
                   summary=[l for l in out.splitlines() if l.startswith("[C")][-1:] )
        # keep it
        keep = os.path.join(V, "seeded", sid)
        os.makedirs(keep, exist_ok=True)
        for f in ("patch.diff", "demo.py", "notes.md"):
            if os.path.exists(os.path.join(d, f)):
                shutil.copy(os.path.join(d, f), os.path.join(keep, f))
        notes = open(os.path.join(d, "notes.md")).read() if os.path.exists(os.path.join(d, "notes.md")) else ""
        prev = {}
        if os.path.exists(os.path.join(keep, "meta.json")):
            prev = json.load(open(os.path.join(keep, "meta.json")))
        if "tests" not in res and prev.get("confirmed", {}).get("tests_with_change", "not re-run") != "not re-run":
            res["tests"] = prev["confirmed"]["tests_with_change"]          # --skip-tests: keep the result confirmed earlier
        first = prev.get("first_check_result") or (prev.get("check_result") if prev else None)
        meta = dict(id=sid, breaks_property=pid, needs_to_manifest=notes[:1500],
                    confirmed=dict(demo_exit_with_change=rc_d, demo_exit_without=rc_c, tests_with_change=res.get("tests", "not re-run")),
                    ran=[f"patch -p1 < patch.diff (scratch copy of /repo)", "demo.py with and without the change",
                         "pytest tests/ with the change", f"VERIF_REPO=<scratch> ./check {pid} --tier quick"],
                    check_result=dict(exit=rc, caught_by=obl))
        if first and first != meta["check_result"]:
            meta["first_check_result"] = first                                   # what the checks said before they were strengthened
        json.dump(meta, open(os.path.join(keep, "meta.json"), "w"), indent=1)
        return res
    except Exception as e:  # noqa: BLE001
        res.update(status="ERROR", detail=repr(e))
        return res
    finally:
        shutil.rmtree(tmp, ignore_errors=True)


def main():
    ap = argparse.ArgumentParser()
    ap.add_argument("--from", dest="src", default="/tmp/seed")
    ap.add_argument("--only")
    ap.add_argument("--jobs", type=int, default=3)
    ap.add_argument("--skip-tests", action="store_true")
    ap.add_argument("--offset", type=int, default=0, help="added to k in the stored id (second round: 2)")
    a = ap.parse_args()
    jobs = []
    for pid in sorted(os.listdir(a.src)):
        if not (pid.startswith("C") and os.path.isdir(os.path.join(a.src, pid, "out"))):
            continue
        for k in sorted(os.listdir(os.path.join(a.src, pid, "out"))):
            if a.only and not any(o in (pid, f"{pid}/{k}") for o in a.only.split(",")):
                continue
            jobs.append((pid, k))
    out = []
    with cf.ThreadPoolExecutor(a.jobs) as ex:
        for r in ex.map(lambda j: evaluate(a.src, j[0], j[1], a.skip_tests, None, a.offset), jobs):
            if r:
                out.append(r)
                print(json.dumps(r)[:700], flush=True)
    print("\nsummary:")
    for r in out:
        print(f"  {r['id']:8s} {r['status']:22s} {', '.join(r.get('caught_by', [])[:3])}")
    write_readme()


def write_readme():
    import glob
    rows = []
    for f in sorted(glob.glob(os.path.join(V, "seeded", "*", "meta.json"))):
        m = json.load(open(f))
        first = (m.get("needs_to_manifest") or "").strip().splitlines()
        title = next((l.strip("# ").strip() for l in first if l.strip()), "")
        cr = m.get("check_result", {})
        rows.append((m["id"], m["breaks_property"], title[:110], "caught" if cr.get("exit") == 1 else f"MISSED (exit {cr.get('exit')})",
                     "; ".join(o.split("/", 1)[1] for o in cr.get("caught_by", [])[:3])))
    with open(os.path.join(V, "seeded", "README.md"), "w") as f:
        f.write("# Independently seeded property-breaking changes\n\n"
                "Each directory holds `patch.diff` (never applied to /repo), `demo.py` (fails with the change, passes without), the author's "
                "`notes.md` and `meta.json` (what it needs to manifest, what was re-run here, which obligations of `./check <id> --tier quick` "
                "report it).  Produced by fresh sub-agents that saw only the property text and a scratch worktree.\n\n"
                "| id | property | change | quick check | reported by |\n|---|---|---|---|---|\n")
        for r in rows:
            f.write("| " + " | ".join(r) + " |\n")


if __name__ == "__main__":
    sys.exit(main())

#!/usr/bin/env python3
"""./tools/selftest.py [--layer proved|bounded|both] [--only id,...] [--jobs N]

Applies every catalogue entry (selftest/catalogue.py) to a scratch copy of the repository under $TMPDIR (never to /repo),
runs the property's quick check against it with VERIF_REPO, and reports
  break    entries that were NOT reported by the expected obligation (a miss), and
  harmless entries that raised an alarm (a false alarm).
Scratch copies are removed.  Exit 0 iff no miss and no false alarm.
"""
import argparse
import concurrent.futures as cf
import json
import os
import shutil
import subprocess
import sys
import tempfile

V = os.path.dirname(os.path.dirname(os.path.abspath(__file__)))
sys.path.insert(0, V)
from selftest.catalogue import BREAK, HARMLESS  # noqa: E402

REPO = os.environ.get("VERIF_REPO", "/repo")


def run_entry(entry, kind, layer):
    eid, pid, rel, old, new = entry[:5]
    expected = entry[5] if kind == "break" else None
    tmp = tempfile.mkdtemp(prefix=f"selftest_{eid}_")
    try:
        dst = os.path.join(tmp, "repo")
        shutil.copytree(os.path.join(REPO, "genlm"), os.path.join(dst, "genlm"))
        p = os.path.join(dst, rel)
        s = open(p, encoding="utf-8").read()
        if old not in s:
            return dict(id=eid, kind=kind, status="STALE", detail="pattern not found in the current source")
        open(p, "w", encoding="utf-8").write(s.replace(old, new, 1))
        env = dict(os.environ, VERIF_REPO=dst, VERIF_EVIDENCE_DIR=os.path.join(tmp, "evidence"), VERIF_REPLAY_DIR=os.path.join(tmp, "replays"))
        cmd = [os.path.join(V, "check"), pid, "--tier", "quick"]
        if layer != "both":
            cmd += ["--only", layer]
        r = subprocess.run(cmd, capture_output=True, text=True, env=env, timeout=3600)
        out = r.stdout
        viol = [l for l in out.splitlines() if l.startswith("VIOLATION")]
        if kind == "break":
            hit = any(f"obligation={expected} " in l for l in viol)
            if r.returncode == 1 and hit:
                return dict(id=eid, kind=kind, status="CAUGHT", by=expected)
            if r.returncode == 1:
                return dict(id=eid, kind=kind, status="CAUGHT-OTHER", by=[l.split("obligation=")[1].split()[0] for l in viol][:4])
            if r.returncode == 2 and layer == "proved":
                und = [l.split("obligation=")[1].split()[0] for l in out.splitlines() if l.startswith("UNDECIDED")]
                if expected in und:
                    return dict(id=eid, kind=kind, status="DEFERRED", by=expected, note="auxiliary obligation refuted: decision is the bounded layer's")
            return dict(id=eid, kind=kind, status="MISSED", exit=r.returncode, tail=out[-600:])
        if r.returncode == 0:
            return dict(id=eid, kind=kind, status="QUIET")
        return dict(id=eid, kind=kind, status="FALSE-ALARM" if r.returncode == 1 else f"EXIT-{r.returncode}", tail=out[-900:])
    finally:
        shutil.rmtree(tmp, ignore_errors=True)


def main():
    ap = argparse.ArgumentParser()
    ap.add_argument("--layer", default="proved", choices=["proved", "bounded", "both"])
    ap.add_argument("--only")
    ap.add_argument("--jobs", type=int, default=8)
    a = ap.parse_args()
    only = set(a.only.split(",")) if a.only else None
    jobs = [(e, "break") for e in BREAK] + [(e, "harmless") for e in HARMLESS]
    if only:
        jobs = [j for j in jobs if j[0][0] in only or j[0][1] in only]
    res = []
    with cf.ThreadPoolExecutor(a.jobs) as ex:
        for r in ex.map(lambda j: run_entry(j[0], j[1], a.layer), jobs):
            res.append(r)
            print(json.dumps(r)[:400], flush=True)
    bad = [r for r in res if r["status"] in ("MISSED", "FALSE-ALARM", "STALE") or r["status"].startswith("EXIT-")]
    print(f"selftest: {len(res)} entries, {sum(r['status'].startswith('CAUGHT') for r in res)} caught, {sum(r['status'] == 'DEFERRED' for r in res)} deferred, "
          f"{sum(r['status'] == 'QUIET' for r in res)} quiet, {len(bad)} problems")
    return 1 if bad else 0


if __name__ == "__main__":
    sys.exit(main())

#!/usr/bin/env python3
"""Rewrite obligations.lock from the evidence files of the last runs (names of PROVED-class obligations that
discharged).  Run deliberately after adding obligations; checks fail (exit 3) when a locked name is no longer generated."""
import glob, json, os, sys
V = os.path.dirname(os.path.dirname(os.path.abspath(__file__)))
lock = {}
p = os.path.join(V, "obligations.lock")
if os.path.exists(p):
    lock = json.load(open(p))
for f in sorted(glob.glob(os.path.join(V, "evidence", "C*.json"))):
    ev = json.load(open(f))
    names = sorted(o["name"] for o in ev["coverage"].get("obligation_list", []) if o["verdict"] == "proved")
    if names:
        lock[ev["property_id"]] = names
json.dump(lock, open(p, "w"), indent=1, sort_keys=True)
print({k: len(v) for k, v in lock.items()})

#!/usr/bin/env python3
"""Regenerate MANIFEST.json from props/meta.py; a property is claimed iff props/<id>.py exists and is listed in CLAIMED
(or CLAIMED is empty: every existing module)."""
import json, os, sys
V = os.path.dirname(os.path.dirname(os.path.abspath(__file__)))
sys.path.insert(0, V)
from props.meta import META
ids = [json.loads(l)["id"] for l in open(os.path.join(V, "properties.jsonl"))]
claimed = json.load(open(os.path.join(V, "props", "claimed.json")))
skip = {}
checks, na = [], []
for pid in ids:
    if os.path.exists(os.path.join(V, "props", f"{pid}.py")) and pid in claimed:
        m = META[pid]
        checks.append(dict(
            property_id=pid,
            quick_cmd=f"./check {pid} --tier quick",
            thorough_cmd=f"./check {pid} --tier thorough",
            evidence_file=f"/verif/evidence/{pid}.json",
            replay_cmd_template=f"./check {pid} --replay {{path}}",
            engine="pyvc+bounded",
            level_claimed=dict(category=m["level"], text=m["text"], design_ref=m["design_ref"]),
            level_note=m["note"],
            technique=m["technique"]))
    else:
        na.append(dict(property_id=pid, reason=skip.get(pid, "check not built yet in this round (planned: DESIGN.md section 4)")))
man = dict(
    version=1,
    setup_cmd="./setup.sh",
    hooks=dict(guard="GENLM_GRAMMAR_VERIF", enable="no source hooks: sidecar contracts and module-attribute patching only; ./check exports GENLM_GRAMMAR_VERIF=1",
               baseline_off_cmd="cd /repo && /venv/bin/python -m pytest -ra -q -p no:cacheprovider --timeout=900 --continue-on-collection-errors",
               source_commits=[], add_only=True),
    engines=[dict(name="pyvc+bounded", path="/verif/vlib", serves_properties=[c["property_id"] for c in checks],
                  kind_free_text="VC generator over the real Python AST (vlib/pyvc) discharged by z3/cvc5, plus bounded contract evaluation on the real functions against independent spec functions (vlib/spec)")],
    checks=checks,
    not_applicable=na,
    notes="Exit codes of every check: 0 held, 1 violation, 2 undecided, 3 checker crash. VERIF_REPO selects the tree under verification (default /repo). fix: commits in /repo are recorded in known_findings.json.")
json.dump(man, open(os.path.join(V, "MANIFEST.json"), "w"), indent=1)
print("claimed:", [c["property_id"] for c in checks]); print("not applicable:", [n["property_id"] for n in na])

#!/bin/bash
# tools/try_seed.sh <Cxx> <k> [layer]   - apply /tmp/seed/<Cxx>/out/<k>/patch.diff to a scratch copy of /repo and run the quick check against it
set -e
P=$1; K=$2; LAYER=${3:-both}
D=$(mktemp -d /tmp/seedrun_${P}_${K}_XXXX)
cp -r /repo/genlm $D/genlm
(cd $D && patch -p1 -s < /tmp/seed/$P/out/$K/patch.diff)
cd /verif
if [ "$LAYER" = both ]; then ARGS=""; else ARGS="--only $LAYER"; fi
VERIF_REPO=$D VERIF_EVIDENCE_DIR=$D/evidence VERIF_REPLAY_DIR=$D/replays ./check $P --tier quick $ARGS 2>&1 | grep -E "VIOLATION|UNDECIDED|CRASH|^\[C" | cut -c1-260 | head -12
echo "exit=${PIPESTATUS[0]}"
rm -rf $D

#!/usr/bin/env python3
"""tools/make_seed_prompts.py <round-dir>   (e.g. /tmp/seed3)

Creates one detached git worktree of /repo per property under <round-dir>/<Cnn> and writes <round-dir>/<Cnn>.prompt.txt: the brief for
a fresh sub-agent that sees ONLY the property record, its own worktree and one line per change already tried (from /verif/seeded/*/meta.json).
The agents' output (<round-dir>/<Cnn>/out/<k>/{patch.diff,demo.py,notes.md}) is evaluated by tools/eval_seeds.py --from <round-dir> --offset N.
Afterwards: `git -C /repo worktree remove --force <round-dir>/<Cnn>` for each, `git -C /repo worktree prune`, remove <round-dir>."""
import glob
import json
import os
import subprocess
import sys

BASE = '''You are testing how well a hidden verification suite protects one semantic property of the Python library genlm-grammar. Your job: produce TWO different, realistic source changes that each BREAK the property below while the library still imports and its existing test suite still passes.

PROPERTY (JSON record; the statement and quantifier are what matters):
@@PROPERTY@@

ALREADY TRIED by someone else (do NOT repeat these ideas or close variants of them - find different functions and different failure mechanisms):
@@TRIED@@

YOUR WORKSPACE: the git worktree @@DIR@@/@@ID@@ (a checkout of the library; package source under genlm/grammar/, tests under tests/). Work ONLY there. Do NOT read or write anything under /verif or /repo, and do not look for other verification material anywhere. Do NOT use `git stash` (the stash is shared between worktrees): toggle your change with `git apply` / `git apply -R` or `git checkout -- genlm`. The Python to use is /venv/bin/python. IMPORTANT: the library is installed in editable mode pointing at another checkout, so ALWAYS run with PYTHONPATH=@@DIR@@/@@ID@@ and verify once with
  cd @@DIR@@/@@ID@@ && PYTHONPATH=@@DIR@@/@@ID@@ /venv/bin/python -W ignore -c "import genlm.grammar; print(genlm.grammar.__file__)"
that the worktree copy is the one imported. Some library calls can hang; run everything under `timeout 600`.

WHAT TO PRODUCE, for k = 1, 2, in @@DIR@@/@@ID@@/out/<k>/ :
  patch.diff   - `git diff` of your change to the library source (files under genlm/ only; never touch tests/), small (a few lines), the kind of slip or "optimisation" a maintainer could plausibly commit;
  demo.py      - a standalone script that exits non-zero (assertion failure) WITH the change and exits 0 WITHOUT it, demonstrating that the property is violated (compare against an independent computation of what the property demands, not against the library itself);
  notes.md     - first line: a one-line title of the change; then which part of the property breaks, and what specific circumstance is needed for the violation to show up.
REQUIREMENTS for each change:
  * it must need something SPECIFIC to manifest - an unusual input shape, a particular multi-step sequence of calls or queries, a particular semiring or option, a hash-seed / tie-break / iteration-order dependence, long inputs, two cooperating sites that each look fine alone - NOT something ordinary use would expose at once, and not a crash on every call;
  * the input that exposes it must lie inside the property's stated quantifier (do not rely on out-of-vocabulary tokens, on mutating a grammar object after it has been queried, or on semirings the property does not name);
  * the existing tests must still pass with the change applied: run `cd @@DIR@@/@@ID@@ && PYTHONPATH=@@DIR@@/@@ID@@ timeout 1500 /venv/bin/python -m pytest -q -p no:cacheprovider --timeout=900 tests/` and confirm 97 passed (if a test fails, the change is too visible: pick another);
  * the two changes must be in different functions and break the property in different ways;
  * verify demo.py both ways yourself (with the patch: exit != 0; after `git checkout -- genlm`: exit 0).
When done, leave the worktree's tracked files unmodified (`git -C @@DIR@@/@@ID@@ checkout -- .`), keep only out/. Final message: for each k the one-line summary of the change, what it needs to manifest, and the commands you ran with their outcomes.
'''


def main():
    d = sys.argv[1]
    os.makedirs(d, exist_ok=True)
    tried = {}
    for f in sorted(glob.glob("/verif/seeded/*/meta.json")):
        m = json.load(open(f))
        lines = [l.strip("# ").strip() for l in (m.get("needs_to_manifest") or "").splitlines() if l.strip()]
        tried.setdefault(m["breaks_property"], []).append(lines[0][:160] if lines else m["id"])
    for l in open("/verif/properties.jsonl"):
        p = json.loads(l)
        wt = os.path.join(d, p["id"])
        if not os.path.exists(wt):
            subprocess.run(["git", "-C", "/repo", "worktree", "add", "-q", "--detach", wt, "HEAD"], check=True)
        tr = "\n".join("  - " + x for x in tried.get(p["id"], [])) or "  (none)"
        open(os.path.join(d, p["id"] + ".prompt.txt"), "w").write(
            BASE.replace("@@PROPERTY@@", json.dumps(p, indent=1, ensure_ascii=False)).replace("@@TRIED@@", tr).replace("@@ID@@", p["id"]).replace("@@DIR@@", d))
    print("prompts in", d)


if __name__ == "__main__":
    main()
